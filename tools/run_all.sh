#!/bin/sh
# tools/run_all.sh [tier] : run every check once; prints one status line per property
tier=${1:-quick}
rc_all=0
for i in ${IDS:-01 02 03 04 05 06 07 08 09 10 11 12 13 14 15 16 17 18 19 20}; do
  s=$(date +%s.%N)
  out=$(${A5VERIF_ROOT:-/verif}/check C$i $tier 2>&1); rc=$?
  e=$(date +%s.%N)
  printf "C%s rc=%s %.1fs %s\n" $i $rc $(echo "$e - $s" | bc) "$(echo "$out" | grep -E '^C[0-9]+ ' | head -1)"
  if [ $rc -ne 0 ]; then echo "$out" | tail -5; rc_all=1; fi
done
exit $rc_all
