#!/bin/bash
# tools/record_seed.sh <ID> <A|B> <check IDs to run...>
# verify in the scratch worktree, run the listed checks against it, store under /verif/seeded/<ID>-<X>/
ID=$1; X=$2; shift 2
O=${SEEDROOT:-/tmp/seed}/out/$ID
v=$(/verif/tools/verify_seed.sh $ID $X)
echo "$v"
case "$v" in
  *"passed/failed=150 0 | demo with patch="*) ;;
  *) echo "NOT CONFIRMED (suite)"; exit 1;;
esac
wf=$(echo "$v" | sed -E 's/.*demo with patch=([0-9]+) ([0-9]+).*/\2/'); wof=$(echo "$v" | sed -E 's/.*demo without=([0-9]+) ([0-9]+).*/\2/')
if [ "$wf" = "0" ] || [ "$wof" != "0" ]; then echo "NOT CONFIRMED (demo)"; exit 1; fi
D=/verif/seeded/$ID-${SEEDTAG:-}$X; mkdir -p $D
cp $O/patch$X.diff $D/patch.diff; cp $O/demo$X.rs $D/demo.rs; cp $O/notes$X.md $D/notes.md
det=""
for c in "$@"; do
  line=$(A5VERIF_SKIP_FIXED=1 /verif/tools/mutrun.sh $D/patch.diff $c)
  echo "$line" | cut -c1-300
  det="$det$line
"
done
python3 - "$ID" "$X" "$v" "$det" "$D" <<'PY'
import sys,json
ID,X,v,det,D=sys.argv[1:6]
lines=[l for l in det.split('\n') if l.strip()]
res={}
for l in lines:
    parts=l.split(' ',2)
    chk=parts[1].rstrip(':')
    res[chk]='caught' if ' caught ' in l else ('missed' if 'MISSED' in l else 'harness-error')
notes=open(D+'/notes.md').read()
meta={"property":ID,"candidate":X,"source":"independent sub-agent given only the property text and a scratch worktree",
 "needs_to_manifest":notes[:1500],
 "confirmation":v,
 "confirmed_by":"tools/verify_seed.sh: full suite (150 tests) passes with the patch; demo fails with it and passes without it",
 "quick_checks_run":res,
 "detection_messages":[l[:400] for l in lines]}
json.dump(meta,open(D+'/meta.json','w'),indent=1)
PY
