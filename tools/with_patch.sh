#!/bin/sh
# tools/with_patch.sh <patch.diff> <command...>
# Applies a patch to /repo's working tree, runs the command, and always restores the tree.
# Refuses to run when /repo has uncommitted changes to tracked files.
set -u
P="$1"; shift
if ! git -C /repo diff --quiet; then echo "with_patch: /repo is dirty" >&2; exit 2; fi
if ! git -C /repo apply "$P"; then echo "with_patch: patch does not apply" >&2; exit 2; fi
trap 'git -C /repo checkout -- . ' EXIT INT TERM
"$@"
rc=$?
git -C /repo checkout -- .
trap - EXIT
exit $rc
