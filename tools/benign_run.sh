#!/bin/sh
# tools/benign_run.sh <patch.diff> [ID...] : apply a property-preserving change to /repo, run the quick
# checks (all by default) with evidence redirected to a scratch dir, restore /repo.
# Prints one line per check that is NOT silent; "silent" when all were.
P="$1"; shift
IDS="${*:-C01 C02 C03 C04 C05 C06 C07 C08 C09 C10 C11 C12 C13 C14 C15 C16 C17 C18 C19 C20}"
if ! git -C /repo diff --quiet; then echo "benign_run: /repo is dirty" >&2; exit 2; fi
if ! git -C /repo apply "$P"; then echo "benign_run: patch does not apply" >&2; exit 2; fi
trap 'git -C /repo checkout -- . ' EXIT INT TERM
bad=0
for id in $IDS; do
  out=$(A5VERIF_EVIDENCE_DIR=/verif/target/scratch-evidence /verif/check "$id" quick 2>&1); rc=$?
  if [ $rc -ne 0 ]; then bad=1; echo "$(basename $P) $id rc=$rc: $(echo "$out" | grep -E '^violation|VIOLATION|error' | cut -c1-400 | head -3)"; fi
done
[ $bad -eq 0 ] && echo "$(basename $P): silent"
git -C /repo checkout -- .
trap - EXIT
exit $bad
