#!/bin/bash
# tools/make_regression.sh <patch> <ID> <name>
# Runs check <ID> quick against the patched tree, keeps the shrunk failing case as
# /verif/regressions/<ID>/<name>.json, and confirms it fails with the patch and passes without.
P=$1; ID=$2; NAME=$3
cd /verif
rm -rf replays/$ID
out=$(A5VERIF_EVIDENCE_DIR=/verif/target/scratch-evidence A5VERIF_SKIP_REGRESSIONS=1 A5VERIF_SKIP_FIXED=1 tools/with_patch.sh $P ./check $ID quick 2>&1); rc=$?
if [ $rc -ne 1 ]; then echo "$NAME $ID: check did not fail (rc=$rc)"; exit 1; fi
f=$(ls -t replays/$ID/*.json 2>/dev/null | head -1)
[ -z "$f" ] && { echo "$NAME: no replay file"; exit 1; }
mkdir -p regressions/$ID
cp $f regressions/$ID/$NAME.json
tools/with_patch.sh $P ./check --replay /verif/regressions/$ID/$NAME.json >/dev/null 2>&1; r1=$?
./check --replay /verif/regressions/$ID/$NAME.json >/dev/null 2>&1; r0=$?
if [ $r1 -eq 1 ] && [ $r0 -eq 0 ]; then echo "$NAME $ID: ok"; else echo "$NAME $ID: replay rc with patch=$r1 without=$r0 -> dropped"; rm -f regressions/$ID/$NAME.json; fi
