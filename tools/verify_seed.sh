#!/bin/bash
# tools/verify_seed.sh <ID> <A|B>
# Confirms a sub-agent's candidate in its scratch worktree /tmp/seed/<ID>:
#  (a) the 150 existing tests pass with the patch, (b) the demo fails with it, (c) the demo passes without it.
ID=$1; X=$2
SR=${SEEDROOT:-/tmp/seed}; W=$SR/$ID; O=$SR/out/$ID
cd $W || exit 2
git checkout -q -- src 2>/dev/null; rm -f tests/seeded_demo.rs
if ! git apply --check $O/patch$X.diff 2>/dev/null; then echo "$ID$X: patch does not apply"; exit 1; fi
if git apply --numstat $O/patch$X.diff | awk '{print $3}' | grep -qv '^src/'; then echo "$ID$X: patch touches files outside src/"; exit 1; fi
git apply $O/patch$X.diff
res=$(cargo test --offline --workspace --no-fail-fast 2>&1 | grep -E "^test result" | awk '{p+=$4; f+=$6} END {print p" "f}')
cp $O/demo$X.rs tests/seeded_demo.rs
with=$(cargo test --offline --test seeded_demo 2>&1 | grep -E "^test result" | awk '{p+=$4; f+=$6} END {print p" "f}')
git apply -R $O/patch$X.diff
without=$(cargo test --offline --test seeded_demo 2>&1 | grep -E "^test result" | awk '{p+=$4; f+=$6} END {print p" "f}')
rm -f tests/seeded_demo.rs
echo "$ID$X: suite(with patch) passed/failed=$res | demo with patch=$with | demo without=$without"
