#!/bin/sh
# tools/multiseed.sh <seed>... : every quick check under each seed (fresh process each), evidence to a scratch dir
for seed in "$@"; do
  for i in 01 02 03 04 05 06 07 08 09 10 11 12 13 14 15 16 17 18 19 20; do
    out=$(VERIF_SEED=$seed A5VERIF_EVIDENCE_DIR=/verif/target/scratch-evidence /verif/check C$i quick 2>&1); rc=$?
    if [ $rc -ne 0 ]; then echo "seed=$seed C$i rc=$rc"; echo "$out" | tail -4; fi
  done
  echo "seed $seed done"
done
