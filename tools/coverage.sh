#!/bin/sh
# tools/coverage.sh <scratch-dir> : line coverage of /repo/src reached by the quick tier of every check.
# Builds an instrumented harness (nightly, -C instrument-coverage) into <scratch-dir>/target, runs each
# check pinned to one core (16 threads sharing counters on 16 cores are ~50x slower), merges the profiles.
# Diagnostic only - not part of any registered command. Remove <scratch-dir> afterwards.
set -u
S=${1:?scratch dir}; mkdir -p "$S/prof"
B=$(dirname "$(rustc +nightly --print target-libdir)")/bin
cd /verif/harness || exit 2
CARGO_NET_OFFLINE=true RUSTFLAGS="-C instrument-coverage" cargo +nightly build --release --target-dir "$S/target" || exit 2
n=0
for i in 01 02 03 04 05 06 07 08 09 10 11 12 13 14 15 16 17 18 19 20; do
  (LLVM_PROFILE_FILE="$S/prof/c$i-%p.profraw" A5VERIF_EVIDENCE_DIR="$S/ev" VERIF_SEED=${VERIF_SEED:-1} A5VERIF_SKIP_REGRESSIONS=1 \
     taskset -c $((n % 16)) "$S/target/release/a5verif" run C$i --tier quick > "$S/c$i.log" 2>&1; echo "C$i rc=$?") &
  n=$((n+1))
done
wait
"$B/llvm-profdata" merge -sparse "$S"/prof/*.profraw -o "$S/all.profdata" || exit 2
"$B/llvm-cov" report "$S/target/release/a5verif" -instr-profile="$S/all.profdata" --ignore-filename-regex='(\.cargo|rustc|/verif/|rustup)'
echo "uncovered lines: $B/llvm-cov show $S/target/release/a5verif -instr-profile=$S/all.profdata /repo/src/<file> | grep -E '\\| +0\\|'"
