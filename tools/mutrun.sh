#!/bin/sh
# tools/mutrun.sh <patch> <ID>...   -> one line per check: caught / MISSED
P="$1"; shift
for id in "$@"; do
  out=$(A5VERIF_EVIDENCE_DIR=/verif/target/scratch-evidence /verif/tools/with_patch.sh "$P" /verif/check "$id" quick 2>&1); rc=$?
  if [ $rc -eq 1 ]; then echo "$(basename $P) $id: caught -- $(echo "$out" | grep '^violation' | cut -c1-260)";
  elif [ $rc -eq 0 ]; then echo "$(basename $P) $id: MISSED";
  else echo "$(basename $P) $id: HARNESS-ERROR rc=$rc $(echo "$out" | tail -3)"; fi
done
