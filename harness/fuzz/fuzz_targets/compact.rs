#![no_main]
//! C08 / C10: bytes decode into a set-construction script (subdivide / delete / overlap /
//! duplicate / permute); the set-model oracles of both properties sit inside the target.
use a5verif::engine::Stats;
use a5verif::props::{c08, c10, fuzzdec, sets};
use libfuzzer_sys::fuzz_target;

fuzz_target!(|data: &[u8]| {
    if let Some(script) = fuzzdec::decode_script(data) {
        c08::set_max_expansion(1 << 11);
        let mut st = Stats::default();
        st.frozen = true;
        // A5VERIF_FUZZ_PROP selects which property's oracle is active (default: both)
        let which = std::env::var("A5VERIF_FUZZ_PROP").unwrap_or_default();
        if which != "C10" {
            if let Err(m) = c08::check_script(&script, &mut st) {
                panic!("C08 violation: {}", m);
            }
        }
        if which != "C08" {
            let b = sets::build(&script);
            if let Err(m) = c10::check_antichain(&b.antichain, "fuzz") {
                panic!("C10 violation: {}", m);
            }
        }
    }
});
