#![no_main]
//! C05 (hex form): arbitrary byte strings through the parser with the independent big-integer
//! evaluation as oracle; every successfully parsed value is formatted and parsed back.
use a5verif::engine::Stats;
use a5verif::props::{c05, fuzzdec};
use libfuzzer_sys::fuzz_target;

fuzz_target!(|data: &[u8]| {
    let s = fuzzdec::decode_string(data);
    let mut st = Stats::default();
    st.frozen = true;
    if let Err(m) = c05::hex_string_check(&s, &mut st) {
        panic!("C05 violation: {}", m);
    }
    if let Ok(v) = a5::hex_to_u64(&s) {
        if let Err(m) = c05::hex_value_check(v, &mut st) {
            panic!("C05 violation: {}", m);
        }
    }
});
