#![no_main]
//! C14: one public call per input, arguments decoded from the bytes; the validity oracle for Ok
//! results sits inside the target (a5verif::props::c14::check_call); panics inside the library
//! surface as crashes by themselves.
use a5verif::engine::Stats;
use a5verif::props::{c14, fuzzdec};
use libfuzzer_sys::fuzz_target;

fuzz_target!(|data: &[u8]| {
    if let Some(call) = fuzzdec::decode_call(data) {
        let mut st = Stats::default();
        st.frozen = true;
        if let Err(m) = c14::check_call(&call, &mut st) {
            panic!("C14 violation: {} -- {}", m, c14::call_json(&call));
        }
    }
});
