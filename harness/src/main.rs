#![allow(dead_code)]
//! a5verif: property-based verification harness for a5-rs. One subcommand per listed property.
//!
//!   a5verif run <C01..C20> --tier quick|thorough      (VERIF_SEED from the environment)
//!   a5verif replay <replay.json>
//!
//! exit 0 = held on everything explored; 1 = violation (a `VIOLATION property=.. replay=..` line
//! is printed); 2 = harness trouble (never reported as a violation).

use a5verif::{engine, props};

use engine::{Report, Tier};
use serde_json::{json, Value};
use std::path::PathBuf;

pub const VERIF_ROOT: &str = "/verif";

fn verif_root() -> PathBuf {
    PathBuf::from(std::env::var("A5VERIF_ROOT").unwrap_or_else(|_| VERIF_ROOT.to_string()))
}

fn parse_seed() -> u64 {
    match std::env::var("VERIF_SEED") {
        Ok(s) => {
            let s = s.trim();
            if let Ok(v) = s.parse::<u64>() {
                v
            } else if let Ok(v) = s.parse::<i64>() {
                v as u64
            } else {
                engine::fingerprint(&s)
            }
        }
        Err(_) => 0,
    }
}

fn write_evidence(rep: &Report) {
    let mut samples: Vec<Value> = rep.samples.clone();
    if samples.is_empty() {
        samples.extend(rep.stats.samples_nt.iter().cloned());
        samples.extend(rep.stats.samples_tr.iter().cloned());
    }
    if samples.is_empty() {
        samples.push(json!("(no sample recorded)"));
    }
    let mut coverage = json!({
        "evaluations": rep.stats.evals,
        "distinct_nontrivial": rep.stats.nontrivial.len(),
        "rule": rep.rule,
        "samples": samples,
        "histogram": rep.stats.hist,
        "measured_maxima": rep.stats.fmax,
        "sections": rep.sections,
        "exhaustive_subspaces": rep.exhaustive,
        "exhaustive": false,
    });
    for (k, v) in &rep.extra {
        coverage[k] = v.clone();
    }
    let seed_i = if rep.seed <= i64::MAX as u64 { json!(rep.seed) } else { json!(rep.seed as i64) };
    let ev = json!({
        "property_id": rep.property,
        "tier": rep.tier.name(),
        "seed": seed_i,
        "level": "exploration",
        "coverage": coverage,
        "assumptions": rep.assumptions,
        "wall_s": rep.start.elapsed().as_secs_f64(),
        "violations": if rep.violation.is_some() { 1 } else { 0 },
    });
    let dir = match std::env::var("A5VERIF_EVIDENCE_DIR") {
        Ok(d) => PathBuf::from(d),
        Err(_) => verif_root().join("evidence"),
    };
    let _ = std::fs::create_dir_all(&dir);
    let path = dir.join(format!("{}.json", rep.property));
    if let Err(e) = std::fs::write(&path, serde_json::to_string_pretty(&ev).unwrap()) {
        eprintln!("harness: cannot write evidence {}: {}", path.display(), e);
        std::process::exit(2);
    }
}

fn write_replay(rep: &Report) -> PathBuf {
    let v = rep.violation.as_ref().unwrap();
    let body = json!({
        "property": rep.property,
        "section": v.section,
        "case": v.case,
        "preceding_cases": v.preceding,
        "message": v.message,
        "tier": rep.tier.name(),
        "seed": rep.seed,
    });
    let text = serde_json::to_string_pretty(&body).unwrap();
    let dir = verif_root().join("replays").join(rep.property);
    let _ = std::fs::create_dir_all(&dir);
    let name = format!("{:016x}.json", engine::fingerprint(&(v.section.clone(), v.case.to_string())));
    let path = dir.join(name);
    if let Err(e) = std::fs::write(&path, text) {
        eprintln!("harness: cannot write replay {}: {}", path.display(), e);
        std::process::exit(2);
    }
    path
}

fn emit_violation(property: &'static str, section: &str, case: Value, message: String) -> i32 {
    let mut rep = Report::new(property, Tier::Thorough, parse_seed(), "");
    rep.violation = Some(engine::Violation { section: section.to_string(), case, message: message.clone(), preceding: Vec::new() });
    let path = write_replay(&rep);
    println!("violation found by the libFuzzer campaign in section {}: {}", section, message);
    println!("VIOLATION property={} replay={}", property, path.display());
    1
}

fn fuzz_replay(id: &str, target: &str, data: &[u8]) -> i32 {
    use a5verif::props::{c05, c08, c10, c14, fuzzdec, sets};
    let mut st = engine::Stats::default();
    match target {
        "hex" => {
            let s = fuzzdec::decode_string(data);
            if let Err(m) = engine::guarded(|| c05::hex_string_check(&s, &mut st)) {
                return emit_violation("C05", "hex-strings", json!(s), m);
            }
            if let Ok(v) = a5::hex_to_u64(&s) {
                if let Err(m) = engine::guarded(|| c05::hex_value_check(v, &mut st)) {
                    return emit_violation("C05", "hex-values", json!(v), m);
                }
            }
        }
        "compact" => {
            if let Some(script) = fuzzdec::decode_script(data) {
                if id != "C10" {
                    if let Err(m) = engine::guarded(|| c08::check_script(&script, &mut st)) {
                        return emit_violation("C08", "scripts", sets::script_json(&script), m);
                    }
                }
                if id != "C08" {
                    let b = sets::build(&script);
                    if let Err(m) = engine::guarded(|| c10::check_antichain(&b.antichain, "fuzz").map(|_| ())) {
                        let cells: Vec<Value> = b.antichain.iter().map(a5verif::gen::cell_json).collect();
                        return emit_violation("C10", "fixed-shapes", json!({"shape": "found by libFuzzer", "cells": cells}), m);
                    }
                }
            }
        }
        "api_total" => {
            if let Some(call) = fuzzdec::decode_call(data) {
                // through the limited child of both profiles, exactly like a C14 replay
                for profile in ["release", "checked"] {
                    let case = json!({"profile": profile, "call": c14::call_json(&call)});
                    match c14::replay("calls", &case) {
                        Some(Err(m)) => return emit_violation("C14", &format!("calls-{}", profile), case, m),
                        Some(Ok(())) => {}
                        None => {
                            eprintln!("harness: cannot replay the fuzz artifact in profile {}", profile);
                            return 2;
                        }
                    }
                }
            }
        }
        _ => return 2,
    }
    eprintln!("harness: the libFuzzer artifact does not reproduce in the plain binary (inconclusive, exit 2)");
    2
}

fn usage() -> ! {
    eprintln!("usage: a5verif run <ID> --tier quick|thorough | a5verif replay <file>");
    std::process::exit(2);
}

fn main() {
    let args: Vec<String> = std::env::args().collect();
    if args.len() < 2 {
        usage();
    }
    engine::install_panic_hook();
    match args[1].as_str() {
        "run" => {
            if args.len() < 3 {
                usage();
            }
            let id = args[2].to_uppercase();
            let mut tier = match std::env::var("VERIF_TIER").as_deref() {
                Ok("thorough") => Tier::Thorough,
                _ => Tier::Quick,
            };
            let mut i = 3;
            while i < args.len() {
                if args[i] == "--tier" && i + 1 < args.len() {
                    tier = match args[i + 1].as_str() {
                        "quick" => Tier::Quick,
                        "thorough" => Tier::Thorough,
                        _ => usage(),
                    };
                    i += 1;
                }
                i += 1;
            }
            let seed = parse_seed();
            let known = props::known::load(&verif_root().join("known_findings.txt"));
            // replay tier: saved shrunk failures of repaired defects and of the seeded breaking
            // changes (regressions/<ID>/*.json) are re-checked first, bypassing proptest
            let mut regressions_ok: Vec<String> = Vec::new();
            let reg_dir = verif_root().join("regressions").join(&id);
            let skip_reg = std::env::var("A5VERIF_SKIP_REGRESSIONS").is_ok();
            if let (Ok(rd), false) = (std::fs::read_dir(&reg_dir), skip_reg) {
                let mut files: Vec<_> = rd.filter_map(|e| e.ok()).map(|e| e.path()).filter(|p| p.extension().map(|x| x == "json").unwrap_or(false)).collect();
                files.sort();
                for f in files {
                    let v: Value = match std::fs::read_to_string(&f).ok().and_then(|t| serde_json::from_str(&t).ok()) {
                        Some(v) => v,
                        None => {
                            eprintln!("harness: unreadable regression file {}", f.display());
                            std::process::exit(2);
                        }
                    };
                    let section = v["section"].as_str().unwrap_or("").to_string();
                    // each regression case runs in its own fresh thread (cold thread-local state), with
                    // its recorded preceding cases first
                    let res = std::thread::scope(|sc| {
                        let (idr, sec, vr) = (&id, &section, &v);
                        sc.spawn(move || {
                            if let Some(pre) = vr["preceding_cases"].as_array() {
                                for c in pre {
                                    let _ = props::replay(idr, sec, c);
                                }
                            }
                            props::replay(idr, sec, &vr["case"])
                        })
                        .join()
                        .unwrap_or(None)
                    });
                    match res {
                        Some(Ok(())) => regressions_ok.push(f.file_name().unwrap().to_string_lossy().to_string()),
                        Some(Err(m)) => {
                            let pid: &'static str = Box::leak(id.clone().into_boxed_str());
                            let mut rep = Report::new(pid, tier, seed, "replay of saved regression cases");
                            rep.stats.evals = regressions_ok.len() as u64 + 1;
                            for (i, n) in regressions_ok.iter().enumerate() {
                                rep.stats.nontrivial(&(i, n.clone()));
                            }
                            rep.stats.nontrivial(&f.display().to_string());
                            rep.stats.nontrivial(&"regression");
                            rep.stats.samples_nt.push(v["case"].clone());
                            rep.violation = Some(engine::Violation { section, case: v["case"].clone(), message: format!("saved regression case {} fails again: {}", f.display(), m), preceding: v["preceding_cases"].as_array().cloned().unwrap_or_default() });
                            write_evidence(&rep);
                            let path = write_replay(&rep);
                            println!("violation: {}", rep.violation.as_ref().unwrap().message);
                            println!("VIOLATION property={} replay={}", rep.property, path.display());
                            std::process::exit(1);
                        }
                        None => {
                            eprintln!("harness: cannot replay regression file {}", f.display());
                            std::process::exit(2);
                        }
                    }
                }
            }
            let run = std::panic::catch_unwind(std::panic::AssertUnwindSafe(|| props::run(&id, tier, seed, &known)));
            let run = match run {
                Ok(r) => r,
                Err(_) => {
                    let m = engine::LAST_PANIC.with(|p| p.borrow_mut().take()).unwrap_or_default();
                    eprintln!("harness: internal panic while running {} (exit 2, not a violation): {}", id, m);
                    std::process::exit(2);
                }
            };
            let rep = match run {
                Some(r) => r,
                None => {
                    eprintln!("harness: unknown property {}", id);
                    std::process::exit(2);
                }
            };
            let mut rep = rep;
            rep.extra.insert("regression_cases_replayed".into(), json!(regressions_ok.len()));
            rep.stats.evals += regressions_ok.len() as u64;
            write_evidence(&rep);
            for k in known.iter().filter(|k| k.status == "known" && k.property == rep.property) {
                println!("KNOWN-FINDING: property={} {}", k.property, k.what);
            }
            println!(
                "{} {}: evaluations={} distinct_nontrivial={} wall={:.1}s",
                rep.property,
                rep.tier.name(),
                rep.stats.evals,
                rep.stats.nontrivial.len(),
                rep.start.elapsed().as_secs_f64()
            );
            if rep.violation.is_some() {
                let path = write_replay(&rep);
                let v = rep.violation.as_ref().unwrap();
                println!("violation in section {}: {}", v.section, v.message);
                println!("case: {}", v.case);
                println!("VIOLATION property={} replay={}", rep.property, path.display());
                std::process::exit(1);
            }
            std::process::exit(0);
        }
        "replay" => {
            if args.len() < 3 {
                usage();
            }
            let text = match std::fs::read_to_string(&args[2]) {
                Ok(t) => t,
                Err(e) => {
                    eprintln!("harness: cannot read {}: {}", args[2], e);
                    std::process::exit(2);
                }
            };
            let v: Value = match serde_json::from_str(&text) {
                Ok(v) => v,
                Err(e) => {
                    eprintln!("harness: bad replay file: {}", e);
                    std::process::exit(2);
                }
            };
            let prop = v["property"].as_str().unwrap_or("").to_string();
            let section = v["section"].as_str().unwrap_or("").to_string();
            if let Some(pre) = v["preceding_cases"].as_array() {
                // history-dependent failure: the recorded preceding cases run first, on this thread
                for c in pre {
                    let _ = props::replay(&prop, &section, c);
                }
            }
            match props::replay(&prop, &section, &v["case"]) {
                None => {
                    eprintln!("harness: cannot replay property {} section {}", prop, section);
                    std::process::exit(2);
                }
                Some(Ok(())) => {
                    println!("replay {}: property {} holds on this case", args[2], prop);
                    std::process::exit(0);
                }
                Some(Err(m)) => {
                    println!("replay {}: {}", args[2], m);
                    println!("VIOLATION property={} replay={}", prop, args[2]);
                    std::process::exit(1);
                }
            }
        }
        "gen-golden" => match props::c06::generate_golden() {
            Ok(n) => {
                println!("wrote {} rows to {}", n, props::c06::golden_path().display());
                std::process::exit(0);
            }
            Err(e) => {
                eprintln!("harness: {}", e);
                std::process::exit(2);
            }
        },
        "fuzz-seeds" => {
            // a5verif fuzz-seeds <dir>: a small deterministic starting corpus (random bytes from VERIF_SEED)
            if args.len() < 3 {
                usage();
            }
            let _ = std::fs::create_dir_all(&args[2]);
            let mut x = engine::mix_seed(parse_seed(), "fuzz-seeds", 0) | 1;
            for i in 0..64 {
                let len = 16 + (i * 13) % 400;
                let mut v = Vec::with_capacity(len);
                for _ in 0..len {
                    x = x.wrapping_mul(6364136223846793005).wrapping_add(1442695040888963407);
                    v.push((x >> 33) as u8);
                }
                let _ = std::fs::write(format!("{}/seed-{:02}", args[2], i), v);
            }
            std::process::exit(0);
        }
        "fuzz-replay" => {
            // a5verif fuzz-replay <ID> <target> <artifact>: decode a libFuzzer artifact with the same decoder
            // as the target, re-run the property's check in the plain binary and emit a JSON replay file
            if args.len() < 5 {
                usage();
            }
            let data = std::fs::read(&args[4]).unwrap_or_default();
            std::process::exit(fuzz_replay(&args[2], &args[3], &data));
        }
        "fuzz-note" => {
            // a5verif fuzz-note <ID> <json>: record a finished libFuzzer campaign in the evidence file
            if args.len() < 4 {
                usage();
            }
            let path = verif_root().join("evidence").join(format!("{}.json", args[2]));
            let mut ev: Value = match std::fs::read_to_string(&path).ok().and_then(|t| serde_json::from_str(&t).ok()) {
                Some(v) => v,
                None => std::process::exit(2),
            };
            let note: Value = serde_json::from_str(&args[3]).unwrap_or(Value::Null);
            let execs = note["executions"].as_u64().unwrap_or(0);
            if let Some(e) = ev["coverage"]["evaluations"].as_u64() {
                ev["coverage"]["evaluations"] = json!(e + execs);
            }
            ev["coverage"]["libfuzzer_campaign"] = note;
            if std::fs::write(&path, serde_json::to_string_pretty(&ev).unwrap()).is_err() {
                std::process::exit(2);
            }
            std::process::exit(0);
        }
        "child" => {
            // helper sub-processes (C13 fresh-process races, C14 limited child)
            std::process::exit(props::child(&args[2..]));
        }
        _ => usage(),
    }
}
