//! Adapters for the vendored reference release (crate `a5_ref`, the pinned v0.6.2 tree, never edited).

use crate::oracle::codec::Cell;
use crate::oracle::geo::{P2, V3};
use a5_ref::coordinate_systems::{Face, LonLat, Radians, Spherical};
use a5_ref::core::utils::A5Cell;
use a5_ref::projections::dodecahedron::DodecahedronProjection;

pub fn to_a5cell(c: &Cell) -> A5Cell {
    A5Cell { origin_id: c.face, segment: c.quintant as usize, s: c.pos, resolution: c.res }
}

pub fn spherical_of_vec(v: V3) -> Spherical {
    let rxy = (v[0] * v[0] + v[1] * v[1]).sqrt();
    Spherical::new(Radians::new_unchecked(v[1].atan2(v[0]) + 93f64.to_radians()), Radians::new_unchecked(rxy.atan2(v[2])))
}

pub fn vec_of_spherical(s: Spherical) -> V3 {
    let theta = s.theta().get() - 93f64.to_radians();
    let phi = s.phi().get();
    [phi.sin() * theta.cos(), phi.sin() * theta.sin(), phi.cos()]
}

pub fn forward(v: V3, face: u8) -> Result<P2, String> {
    let d = DodecahedronProjection::get_thread_local();
    let f = d.forward(spherical_of_vec(v), face)?;
    Ok([f.x(), f.y()])
}

pub fn inverse(p: P2, face: u8) -> Result<V3, String> {
    let d = DodecahedronProjection::get_thread_local();
    Ok(vec_of_spherical(d.inverse(Face::new(p[0], p[1]), face)?))
}

/// lon/lat through the reference's own conversion
pub fn inverse_lonlat(p: P2, face: u8) -> Result<(f64, f64), String> {
    let d = DodecahedronProjection::get_thread_local();
    let s = d.inverse(Face::new(p[0], p[1]), face)?;
    let ll = a5_ref::core::coordinate_transforms::to_lon_lat(s);
    Ok((ll.longitude(), ll.latitude()))
}

pub fn pentagon(c: &Cell) -> Result<Vec<P2>, String> {
    let shape = a5_ref::core::cell::get_pentagon(&to_a5cell(c))?;
    Ok(shape.get_vertices_vec().iter().map(|f| [f.x(), f.y()]).collect())
}

pub fn lookup(lon: f64, lat: f64, res: i32) -> Result<u64, String> {
    a5_ref::lonlat_to_cell(LonLat::new(lon, lat), res)
}

/// Planar signed distance of the point to the reference's pentagon of `cell`, through the
/// reference's own projection of the reference's own sphere coordinates of (lon, lat).
pub fn planar_margin(cell: &Cell, lon: f64, lat: f64) -> Result<f64, String> {
    let sph = a5_ref::core::coordinate_transforms::from_lon_lat(LonLat::new(lon, lat));
    let d = DodecahedronProjection::get_thread_local();
    let q = d.forward(sph, cell.face)?;
    let pent = pentagon(cell)?;
    if !(q.x().is_finite() && q.y().is_finite()) {
        return Ok(f64::NEG_INFINITY);
    }
    Ok(crate::oracle::geo::convex_signed_dist(&pent, [q.x(), q.y()]))
}

pub fn centre(id: u64) -> Result<(f64, f64), String> {
    let c = a5_ref::cell_to_lonlat(id)?;
    Ok((c.longitude(), c.latitude()))
}

pub fn corners(id: u64) -> Result<Vec<(f64, f64)>, String> {
    let b = a5_ref::cell_to_boundary(
        id,
        Some(a5_ref::core::cell::CellToBoundaryOptions { closed_ring: false, segments: Some(1) }),
    )?;
    Ok(b.iter().map(|p| (p.longitude(), p.latitude())).collect())
}
