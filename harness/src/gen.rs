//! Shared generators (DESIGN.md §3.1–3.3). Every random choice is a proptest strategy, so cases
//! shrink and replay.

use crate::oracle::codec::Cell;
use crate::oracle::frame::{slerp, Frame};
use crate::oracle::geo::*;
use proptest::prelude::*;
use std::sync::OnceLock;

pub fn frame() -> &'static Frame {
    static F: OnceLock<Frame> = OnceLock::new();
    F.get_or_init(Frame::new)
}

// ---------------------------------------------------------------------------------------------
// cells

pub const POS_CLASSES: [&str; 9] =
    ["zero", "max", "alt12", "all1", "all2", "single-digit", "straddle-low", "straddle-high", "uniform"];

/// Position of class `class` for `levels` curve levels (pos < 4^levels).
pub fn make_pos(class: u8, raw: u64, k: u8, levels: u32) -> u64 {
    if levels == 0 {
        return 0;
    }
    let bits = 2 * levels;
    let mask = if bits >= 64 { u64::MAX } else { (1u64 << bits) - 1 };
    let k = (k as u32) % levels; // a level
    match class % 9 {
        0 => 0,
        1 => mask,
        2 => 0x6666_6666_6666_6666 & mask,
        3 => 0x5555_5555_5555_5555 & mask,
        4 => 0xAAAA_AAAA_AAAA_AAAA & mask,
        5 => (((raw % 3) + 1) << (2 * k)) & mask,
        6 => {
            // ...x11..1 : last position of a level-k block
            let low = (1u64 << (2 * k)) - 1;
            (raw & mask) | low
        }
        7 => {
            // ...x00..0 : first position of a level-k block
            let low = (1u64 << (2 * k)) - 1;
            (raw & mask) & !low
        }
        _ => raw & mask,
    }
}

#[derive(Debug, Clone, Copy)]
pub struct CellSpec {
    pub res: i32,
    pub face: u8,
    pub quintant: u8,
    pub pos_class: u8,
    pub raw: u64,
    pub k: u8,
}

impl CellSpec {
    pub fn cell(&self) -> Cell {
        match self.res {
            -1 => Cell::WORLD,
            0 => Cell::base(self.face),
            1 => Cell { res: 1, face: self.face, quintant: self.quintant, pos: 0 },
            r => Cell {
                res: r,
                face: self.face,
                quintant: self.quintant,
                pos: make_pos(self.pos_class, self.raw, self.k, (r - 1) as u32),
            },
        }
    }
}

/// Cells with resolution in [min_res, max_res] (uniform over resolutions), every face/quintant,
/// position classes of §3.2.
pub fn cell_spec(min_res: i32, max_res: i32) -> impl Strategy<Value = CellSpec> {
    (min_res..=max_res, 0u8..12, 0u8..5, 0u8..9, any::<u64>(), 0u8..32).prop_map(
        |(res, face, quintant, pos_class, raw, k)| CellSpec { res, face, quintant, pos_class, raw, k },
    )
}

pub fn cell(min_res: i32, max_res: i32) -> impl Strategy<Value = Cell> {
    cell_spec(min_res, max_res).prop_map(|s| s.cell())
}

/// Enumerate all cells of a resolution by index (0 .. num_cells(res)).
pub fn cell_by_index(res: i32, i: u64) -> Cell {
    match res {
        -1 => Cell::WORLD,
        0 => Cell::base(i as u8),
        1 => Cell { res: 1, face: (i / 5) as u8, quintant: (i % 5) as u8, pos: 0 },
        r => {
            let per = 1u64 << (2 * (r - 1));
            let fq = i / per;
            Cell { res: r, face: (fq / 5) as u8, quintant: (fq % 5) as u8, pos: i % per }
        }
    }
}

// ---------------------------------------------------------------------------------------------
// points

pub const POINT_CLASSES: [&str; 9] = [
    "uniform",
    "polar-cap",
    "log-pole",
    "exact-pole",
    "antimeridian",
    "special-point",
    "face-edge-seam",
    "quintant-seam",
    "triangle-seam",
];

#[derive(Debug, Clone, Copy)]
pub struct GeoPoint {
    pub lon: f64,
    pub lat: f64,
    pub class: u8,
}

impl GeoPoint {
    pub fn class_name(&self) -> &'static str {
        POINT_CLASSES[self.class as usize % POINT_CLASSES.len()]
    }
    pub fn vec(&self) -> V3 {
        vec_of_lonlat(self.lon, self.lat)
    }
}

fn clamp_lat(lat: f64) -> f64 {
    lat.clamp(-90.0, 90.0)
}

fn from_vec(v: V3, class: u8) -> GeoPoint {
    let (lon, lat) = lonlat_of_vec(v);
    GeoPoint { lon, lat: clamp_lat(lat), class }
}

fn perturb(v: V3, log_mag: f64, dir: f64) -> V3 {
    let m = 10f64.powf(log_mag);
    offset_point(v, m * dir.cos(), m * dir.sin())
}

/// Point of class `class` from primitive draws u1,u2,u3 in [0,1) and an index.
pub fn make_point(class: u8, idx: u16, u1: f64, u2: f64, u3: f64) -> GeoPoint {
    let fr = frame();
    let tau = std::f64::consts::TAU;
    match class {
        0 => {
            let z = 2.0 * u1 - 1.0;
            GeoPoint { lon: 360.0 * u2 - 180.0, lat: clamp_lat(z.asin().to_degrees()), class }
        }
        1 => {
            let lat = 70.0 + 20.0 * u1;
            GeoPoint { lon: 360.0 * u2 - 180.0, lat: if u3 < 0.5 { lat } else { -lat }, class }
        }
        2 => {
            let d = 10f64.powf(-14.0 + 15.0 * u1);
            let lat = 90.0 - d;
            GeoPoint { lon: 360.0 * u2 - 180.0, lat: if u3 < 0.5 { lat } else { -lat }, class }
        }
        3 => GeoPoint { lon: 360.0 * u2 - 180.0, lat: if u3 < 0.5 { 90.0 } else { -90.0 }, class },
        4 => {
            let d = 10f64.powf(-12.0 + 12.0 * u1);
            let z = 2.0 * u2 - 1.0;
            let lon = if u3 < 0.5 { 180.0 - d } else { -180.0 + d };
            GeoPoint { lon, lat: clamp_lat(z.asin().to_degrees()), class }
        }
        5 => {
            // 62 special points
            let i = crate::engine::pick_index(idx, 62);
            let base = if i < 12 {
                fr.centres[i]
            } else if i < 32 {
                fr.vertices[i - 12].0
            } else {
                fr.edges[i - 32].0
            };
            from_vec(perturb(base, -12.0 + 11.0 * u1, tau * u2), class)
        }
        6 => {
            // on a face edge (vertex - vertex), +- perpendicular offset
            let e = &fr.edges[crate::engine::pick_index(idx, 30)];
            let a = fr.vertices[e.2[0]].0;
            let b = fr.vertices[e.2[1]].0;
            let p = slerp(a, b, u1);
            from_vec(perturb(p, -12.0 + 10.0 * u2, tau * u3), class)
        }
        7 => {
            // quintant border: face centre - face vertex
            let i = crate::engine::pick_index(idx, 60);
            let (v, faces) = &fr.vertices[i / 3];
            let c = fr.centres[faces[i % 3]];
            let p = slerp(c, *v, u1);
            from_vec(perturb(p, -12.0 + 10.0 * u2, tau * u3), class)
        }
        _ => {
            // projection triangle seam: face centre - edge midpoint
            let i = crate::engine::pick_index(idx, 60);
            let e = &fr.edges[i / 2];
            let c = fr.centres[e.1[i % 2]];
            let p = slerp(c, e.0, u1);
            from_vec(perturb(p, -12.0 + 10.0 * u2, tau * u3), class)
        }
    }
}

#[derive(Debug, Clone, Copy)]
pub struct PointSpec {
    pub class: u8,
    pub idx: u16,
    pub u1: f64,
    pub u2: f64,
    pub u3: f64,
}

impl PointSpec {
    pub fn point(&self) -> GeoPoint {
        make_point(self.class, self.idx, self.u1, self.u2, self.u3)
    }
}

fn class_weights(weights: [u32; 9]) -> impl Strategy<Value = u8> {
    let total: u32 = weights.iter().sum();
    (0..total).prop_map(move |mut x| {
        for (i, w) in weights.iter().enumerate() {
            if x < *w {
                return i as u8;
            }
            x -= w;
        }
        0
    })
}

/// The default mixture of §3.1.
pub const DEFAULT_POINT_WEIGHTS: [u32; 9] = [20, 12, 12, 3, 8, 15, 10, 10, 10];
/// Mixture weighted towards vertices, edges, quintant borders and poles (C03).
pub const SEAM_POINT_WEIGHTS: [u32; 9] = [12, 6, 8, 2, 4, 24, 16, 16, 12];

pub fn point_spec(weights: [u32; 9]) -> impl Strategy<Value = PointSpec> {
    (class_weights(weights), any::<u16>(), 0.0f64..1.0, 0.0f64..1.0, 0.0f64..1.0)
        .prop_map(|(class, idx, u1, u2, u3)| PointSpec { class, idx, u1, u2, u3 })
}

pub fn point_json(p: &PointSpec) -> serde_json::Value {
    serde_json::json!({"class": p.class, "idx": p.idx, "u1": p.u1, "u2": p.u2, "u3": p.u3})
}

pub fn point_from_json(v: &serde_json::Value) -> Option<PointSpec> {
    Some(PointSpec {
        class: v["class"].as_u64()? as u8,
        idx: v["idx"].as_u64()? as u16,
        u1: v["u1"].as_f64()?,
        u2: v["u2"].as_f64()?,
        u3: v["u3"].as_f64()?,
    })
}

pub fn cellspec_json(c: &CellSpec) -> serde_json::Value {
    serde_json::json!({"res": c.res, "face": c.face, "quintant": c.quintant, "pos_class": c.pos_class, "raw": c.raw, "k": c.k})
}

pub fn cellspec_from_json(v: &serde_json::Value) -> Option<CellSpec> {
    Some(CellSpec {
        res: v["res"].as_i64()? as i32,
        face: v["face"].as_u64()? as u8,
        quintant: v["quintant"].as_u64()? as u8,
        pos_class: v["pos_class"].as_u64()? as u8,
        raw: v["raw"].as_u64()?,
        k: v["k"].as_u64()? as u8,
    })
}

pub fn cell_json(c: &Cell) -> serde_json::Value {
    serde_json::json!({"res": c.res, "face": c.face, "quintant": c.quintant, "pos": c.pos,
        "id_hex": format!("{:x}", crate::oracle::codec::encode(c))})
}

pub fn cell_from_json(v: &serde_json::Value) -> Option<Cell> {
    Some(Cell {
        res: v["res"].as_i64()? as i32,
        face: v["face"].as_u64()? as u8,
        quintant: v["quintant"].as_u64()? as u8,
        pos: v["pos"].as_u64()?,
    })
}
