//! Library part of the a5-rs verification harness: oracles, generators, the PBT engine and one
//! module per listed property. Used by the `a5verif` binary and by the cargo-fuzz targets.
#![allow(dead_code)]

pub mod api;
pub mod engine;
pub mod gen;
pub mod oracle;
pub mod props;
pub mod refapi;
