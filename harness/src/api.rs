//! Thin adapters between the harness's plain types and the library under test.

use crate::oracle::codec::Cell;
use crate::oracle::geo::{P2, V3};
use a5::coordinate_systems::{Face, LonLat, Radians, Spherical};
use a5::core::utils::A5Cell;
use a5::projections::dodecahedron::DodecahedronProjection;

pub const LON_OFFSET_DEG: f64 = 93.0;

pub fn to_a5cell(c: &Cell) -> A5Cell {
    A5Cell { origin_id: c.face, segment: c.quintant as usize, s: c.pos, resolution: c.res }
}

pub fn from_a5cell(c: &A5Cell) -> Cell {
    Cell { res: c.resolution, face: c.origin_id, quintant: c.segment as u8, pos: c.s }
}

/// Library sphere coordinates of a harness unit vector (harness frame: x at lon 0).
pub fn spherical_of_vec(v: V3) -> Spherical {
    let rxy = (v[0] * v[0] + v[1] * v[1]).sqrt();
    let phi = rxy.atan2(v[2]);
    let theta = v[1].atan2(v[0]) + LON_OFFSET_DEG.to_radians();
    Spherical::new(Radians::new_unchecked(theta), Radians::new_unchecked(phi))
}

/// Harness unit vector of library sphere coordinates.
pub fn vec_of_spherical(s: Spherical) -> V3 {
    let theta = s.theta().get() - LON_OFFSET_DEG.to_radians();
    let phi = s.phi().get();
    [phi.sin() * theta.cos(), phi.sin() * theta.sin(), phi.cos()]
}

pub fn forward(v: V3, face: u8) -> Result<P2, String> {
    let d = DodecahedronProjection::get_thread_local();
    let f = d.forward(spherical_of_vec(v), face)?;
    Ok([f.x(), f.y()])
}

pub fn inverse(p: P2, face: u8) -> Result<V3, String> {
    let d = DodecahedronProjection::get_thread_local();
    let s = d.inverse(Face::new(p[0], p[1]), face)?;
    Ok(vec_of_spherical(s))
}

/// Planar pentagon (or triangle at resolution 1) of a cell, in its face's plane.
pub fn pentagon(c: &Cell) -> Result<Vec<P2>, String> {
    let shape = a5::core::cell::get_pentagon(&to_a5cell(c))?;
    Ok(shape.get_vertices_vec().iter().map(|f| [f.x(), f.y()]).collect())
}

pub fn lonlat(lon: f64, lat: f64) -> LonLat {
    LonLat::new(lon, lat)
}

/// Boundary ring (open, `n` subdivisions per edge) as harness unit vectors, through the harness's
/// own lon/lat -> authalic sphere conversion.
pub fn boundary_vecs(id: u64, n: i32) -> Result<Vec<V3>, String> {
    let b = a5::cell_to_boundary(
        id,
        Some(a5::core::cell::CellToBoundaryOptions { closed_ring: false, segments: Some(n) }),
    )?;
    Ok(b.iter().map(|p| crate::oracle::geo::vec_of_lonlat(p.longitude(), p.latitude())).collect())
}

pub fn boundary_lonlat(id: u64, n: Option<i32>, closed: bool) -> Result<Vec<(f64, f64)>, String> {
    let b = a5::cell_to_boundary(
        id,
        Some(a5::core::cell::CellToBoundaryOptions { closed_ring: closed, segments: n }),
    )?;
    Ok(b.iter().map(|p| (p.longitude(), p.latitude())).collect())
}

pub fn centre_vec(id: u64) -> Result<V3, String> {
    let c = a5::cell_to_lonlat(id)?;
    Ok(crate::oracle::geo::vec_of_lonlat(c.longitude(), c.latitude()))
}
