//! The documented dodecahedron frame, stated independently of the library's origin table
//! (DESIGN.md §3.6 / C18): face 0 on the north pole, face 9 on the south pole, two rings of five
//! faces at authalic colatitude atan(2) and pi - atan(2), ring longitudes -93 + 36k degrees.

use super::geo::*;

/// (longitude in degrees, ring) per face; ring 0 = north pole, 1 = northern ring, 2 = southern
/// ring, 3 = south pole.
pub const FACE_LON_RING: [(f64, u8); 12] = [
    (0.0, 0),
    (-93.0, 1),
    (-57.0, 2),
    (15.0, 2),
    (-21.0, 1),
    (51.0, 1),
    (123.0, 1),
    (159.0, 2),
    (87.0, 2),
    (0.0, 3),
    (-129.0, 2),
    (-165.0, 1),
];

pub fn ring_colat() -> f64 {
    2.0f64.atan()
}

/// Unit vectors of the 12 face centres on the authalic sphere (x at lon 0, z north).
pub fn face_centres() -> [V3; 12] {
    let mut out = [[0.0; 3]; 12];
    let c = ring_colat();
    for (i, (lon, ring)) in FACE_LON_RING.iter().enumerate() {
        let l = lon.to_radians();
        out[i] = match ring {
            0 => [0.0, 0.0, 1.0],
            3 => [0.0, 0.0, -1.0],
            1 => [c.sin() * l.cos(), c.sin() * l.sin(), c.cos()],
            _ => [c.sin() * l.cos(), c.sin() * l.sin(), -c.cos()],
        };
    }
    out
}

pub struct Frame {
    pub centres: [V3; 12],
    /// for each face its 5 neighbours
    pub neighbours: Vec<Vec<usize>>,
    /// 20 vertices: (unit vector, the three faces meeting there)
    pub vertices: Vec<(V3, [usize; 3])>,
    /// 30 edges: (midpoint, the two faces, the two end vertices as indices into `vertices`)
    pub edges: Vec<(V3, [usize; 2], [usize; 2])>,
}

impl Frame {
    pub fn new() -> Frame {
        let centres = face_centres();
        let mut neighbours = vec![Vec::new(); 12];
        for i in 0..12 {
            for j in 0..12 {
                if i != j && (ang(centres[i], centres[j]) - ring_colat()).abs() < 1e-9 {
                    neighbours[i].push(j);
                }
            }
            assert_eq!(neighbours[i].len(), 5);
        }
        let mut vertices = Vec::new();
        for i in 0..12 {
            for &j in &neighbours[i] {
                for &k in &neighbours[j] {
                    if i < j && j < k && neighbours[i].contains(&k) {
                        vertices.push((unit(add(add(centres[i], centres[j]), centres[k])), [i, j, k]));
                    }
                }
            }
        }
        assert_eq!(vertices.len(), 20);
        let mut edges = Vec::new();
        for i in 0..12 {
            for &j in &neighbours[i] {
                if i < j {
                    let ends: Vec<usize> = vertices
                        .iter()
                        .enumerate()
                        .filter(|(_, (_, f))| f.contains(&i) && f.contains(&j))
                        .map(|(n, _)| n)
                        .collect();
                    assert_eq!(ends.len(), 2);
                    edges.push((unit(add(centres[i], centres[j])), [i, j], [ends[0], ends[1]]));
                }
            }
        }
        assert_eq!(edges.len(), 30);
        Frame { centres, neighbours, vertices, edges }
    }

    /// Faces sorted by true angular distance from p (nearest first), with the distances.
    pub fn ranked_faces(&self, p: V3) -> Vec<(usize, f64)> {
        let mut v: Vec<(usize, f64)> = (0..12).map(|i| (i, ang(p, self.centres[i]))).collect();
        v.sort_by(|a, b| a.1.partial_cmp(&b.1).unwrap());
        v
    }

    /// The five vertices of a face in counter-clockwise order (seen from outside).
    pub fn face_vertices(&self, face: usize) -> Vec<V3> {
        let c = self.centres[face];
        let (e1, e2) = tangent_basis(c);
        let mut vs: Vec<(f64, V3)> = self
            .vertices
            .iter()
            .filter(|(_, f)| f.contains(&face))
            .map(|(v, _)| (dot(*v, e2).atan2(dot(*v, e1)), *v))
            .collect();
        vs.sort_by(|a, b| a.0.partial_cmp(&b.0).unwrap());
        vs.into_iter().map(|x| x.1).collect()
    }
}

/// Great-circle interpolation between unit vectors.
pub fn slerp(a: V3, b: V3, t: f64) -> V3 {
    let g = ang(a, b);
    if g < 1e-15 {
        return a;
    }
    let wa = ((1.0 - t) * g).sin() / g.sin();
    let wb = (t * g).sin() / g.sin();
    unit(add(scale(a, wa), scale(b, wb)))
}
