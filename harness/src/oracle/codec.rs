//! Independent statement of the documented 64-bit cell-ID layout (DESIGN.md §3.4). Written from
//! the documentation, not from `serialization.rs`.
//!
//!   id = code << 58 | position << (58 - 2(r-1)) | 1 << marker
//!   code   = face                                  (r = 0)
//!          = 5*face + (quintant - ROT[face]) mod 5 (r >= 1)
//!   marker = 57 (r = 0), 56 (r = 1), 57 - 2(r-1) (r >= 2);   world cell = 0

/// Per-face rotation of the quintant numbering (QUINTANT_FIRST after the ORIGIN_ORDER permutation).
pub const ROT: [u8; 12] = [4, 2, 3, 0, 2, 4, 2, 2, 3, 0, 3, 0];

pub const MAX_RES: i32 = 29;

#[derive(Debug, Clone, Copy, PartialEq, Eq, Hash, PartialOrd, Ord)]
pub struct Cell {
    pub res: i32,
    pub face: u8,
    /// quintant ("segment") 0..4; 0 when res <= 0
    pub quintant: u8,
    /// curve position, < 4^(res-1); 0 when res <= 1
    pub pos: u64,
}

impl Cell {
    pub const WORLD: Cell = Cell { res: -1, face: 0, quintant: 0, pos: 0 };
    pub fn base(face: u8) -> Cell {
        Cell { res: 0, face, quintant: 0, pos: 0 }
    }
    pub fn is_valid(&self) -> bool {
        match self.res {
            -1 => self.face == 0 && self.quintant == 0 && self.pos == 0,
            0 => self.face < 12 && self.quintant == 0 && self.pos == 0,
            1 => self.face < 12 && self.quintant < 5 && self.pos == 0,
            r if (2..=MAX_RES).contains(&r) => {
                self.face < 12 && self.quintant < 5 && (self.pos >> (2 * (r - 1))) == 0
            }
            _ => false,
        }
    }
    /// code offset n in 5*face + n
    pub fn code_offset(&self) -> u8 {
        (self.quintant + 5 - ROT[self.face as usize]) % 5
    }
}

pub fn num_cells(res: i32) -> u128 {
    match res {
        -1 => 1,
        0 => 12,
        r => 60u128 << (2 * (r - 1)),
    }
}

pub fn encode(c: &Cell) -> u64 {
    debug_assert!(c.is_valid());
    match c.res {
        -1 => 0,
        0 => ((c.face as u64) << 58) | (1u64 << 57),
        1 => ((5 * c.face as u64 + c.code_offset() as u64) << 58) | (1u64 << 56),
        r => {
            let levels = (r - 1) as u32;
            ((5 * c.face as u64 + c.code_offset() as u64) << 58)
                | (c.pos << (58 - 2 * levels))
                | (1u64 << (57 - 2 * levels))
        }
    }
}

/// Decodes a canonical ID; `None` for every bit pattern that is not the canonical ID of a cell.
pub fn decode(id: u64) -> Option<Cell> {
    if id == 0 {
        return Some(Cell::WORLD);
    }
    let tz = id.trailing_zeros();
    let code = (id >> 58) as u8;
    let c = match tz {
        57 => {
            if code >= 12 {
                return None;
            }
            Cell::base(code)
        }
        56 => {
            if code >= 60 {
                return None;
            }
            let face = code / 5;
            Cell { res: 1, face, quintant: (code % 5 + ROT[face as usize]) % 5, pos: 0 }
        }
        t if t <= 55 && t % 2 == 1 => {
            if code >= 60 {
                return None;
            }
            let levels = (57 - t) / 2;
            let face = code / 5;
            let pos = (id & ((1u64 << 58) - 1)) >> (t + 1);
            Cell { res: levels as i32 + 1, face, quintant: (code % 5 + ROT[face as usize]) % 5, pos }
        }
        _ => return None,
    };
    if encode(&c) == id {
        Some(c)
    } else {
        None
    }
}

pub fn is_canonical(id: u64) -> bool {
    decode(id).is_some()
}
