//! Trivially correct set model of the cell hierarchy (DESIGN.md §3.5). Shares nothing with
//! `compact.rs`, `get_stride`, `is_first_child` or `cell_to_children`.

use super::codec::Cell;
use std::collections::BTreeSet;

pub fn parent(c: &Cell) -> Option<Cell> {
    match c.res {
        -1 => None,
        0 => Some(Cell::WORLD),
        1 => Some(Cell::base(c.face)),
        2 => Some(Cell { res: 1, face: c.face, quintant: c.quintant, pos: 0 }),
        r => Some(Cell { res: r - 1, face: c.face, quintant: c.quintant, pos: c.pos >> 2 }),
    }
}

pub fn children(c: &Cell) -> Vec<Cell> {
    match c.res {
        -1 => (0..12).map(Cell::base).collect(),
        0 => (0..5).map(|q| Cell { res: 1, face: c.face, quintant: q, pos: 0 }).collect(),
        r => (0..4)
            .map(|d| Cell {
                res: r + 1,
                face: c.face,
                quintant: c.quintant,
                pos: if r == 1 { d } else { (c.pos << 2) | d },
            })
            .collect(),
    }
}

pub fn ancestor(c: &Cell, res: i32) -> Cell {
    let mut x = *c;
    while x.res > res {
        x = parent(&x).unwrap();
    }
    x
}

/// All descendants of `c` at resolution `res` (>= c.res), by repeated one-level expansion.
pub fn descendants(c: &Cell, res: i32) -> Vec<Cell> {
    let mut cur = vec![*c];
    let mut r = c.res;
    while r < res {
        let mut next = Vec::with_capacity(cur.len() * 4);
        for x in &cur {
            next.extend(children(x));
        }
        cur = next;
        r += 1;
    }
    cur
}

pub fn num_descendants(c: &Cell, res: i32) -> u128 {
    super::codec::num_cells(res) / super::codec::num_cells(c.res)
}

pub fn expand(set: &[Cell], res: i32) -> BTreeSet<Cell> {
    let mut out = BTreeSet::new();
    for c in set {
        for d in descendants(c, res) {
            out.insert(d);
        }
    }
    out
}

/// The unique maximal antichain covering exactly the region of `set`: naive fixed point of
/// "drop cells that have an ancestor in the set; if all children of p are present replace them
/// by p".
pub fn compact_model(set: &[Cell]) -> BTreeSet<Cell> {
    let mut s: BTreeSet<Cell> = set.iter().copied().collect();
    // remove cells covered by an ancestor
    let all: Vec<Cell> = s.iter().copied().collect();
    for c in &all {
        let mut x = *c;
        while let Some(p) = parent(&x) {
            if s.contains(&p) {
                s.remove(c);
                break;
            }
            x = p;
        }
    }
    loop {
        let mut changed = false;
        let cur: Vec<Cell> = s.iter().copied().collect();
        for c in cur {
            if !s.contains(&c) {
                continue;
            }
            if let Some(p) = parent(&c) {
                let kids = children(&p);
                if kids.iter().all(|k| s.contains(k)) {
                    for k in &kids {
                        s.remove(k);
                    }
                    s.insert(p);
                    changed = true;
                }
            }
        }
        if !changed {
            break;
        }
    }
    s
}

pub fn is_ancestor_or_equal(a: &Cell, c: &Cell) -> bool {
    a.res <= c.res && ancestor(c, a.res) == *a
}
