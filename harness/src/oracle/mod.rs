pub mod codec;
pub mod frame;
pub mod geo;
pub mod tree;
