//! Independent, pole-stable geometry kit (DESIGN.md §3.6). Nothing in here calls the library.
//! All angles in radians unless a name says `_deg`.

pub type V3 = [f64; 3];

pub const WGS84_F: f64 = 1.0 / 298.257223563;
pub const WGS84_A: f64 = 6378137.0;

#[inline]
pub fn dot(a: V3, b: V3) -> f64 {
    a[0] * b[0] + a[1] * b[1] + a[2] * b[2]
}
#[inline]
pub fn cross(a: V3, b: V3) -> V3 {
    [
        a[1] * b[2] - a[2] * b[1],
        a[2] * b[0] - a[0] * b[2],
        a[0] * b[1] - a[1] * b[0],
    ]
}
#[inline]
pub fn sub(a: V3, b: V3) -> V3 {
    [a[0] - b[0], a[1] - b[1], a[2] - b[2]]
}
#[inline]
pub fn add(a: V3, b: V3) -> V3 {
    [a[0] + b[0], a[1] + b[1], a[2] + b[2]]
}
#[inline]
pub fn scale(a: V3, s: f64) -> V3 {
    [a[0] * s, a[1] * s, a[2] * s]
}
#[inline]
pub fn norm(a: V3) -> f64 {
    dot(a, a).sqrt()
}
#[inline]
pub fn unit(a: V3) -> V3 {
    let n = norm(a);
    [a[0] / n, a[1] / n, a[2] / n]
}

/// Angle between two unit vectors, accurate for tiny and for near-antipodal angles.
#[inline]
pub fn ang(a: V3, b: V3) -> f64 {
    norm(cross(a, b)).atan2(dot(a, b))
}

fn e2() -> f64 {
    WGS84_F * (2.0 - WGS84_F)
}

/// q_p - q(phi) for a geodetic latitude given by its colatitude `c` in [0, pi/2] (northern
/// hemisphere), evaluated without cancellation; and q_p.
fn qp_minus_q(c: f64) -> (f64, f64) {
    let e2 = e2();
    let e = e2.sqrt();
    let h = (c / 2.0).sin();
    let u = 2.0 * h * h; // 1 - sin(phi)
    let s = 1.0 - u; // sin(phi)
    let d = 1.0 - e2 * s; // 1 - e^2 sin(phi)
    let t1 = u * (1.0 + e2 * s) / (1.0 - e2 * s * s);
    let t2 = ((1.0 - e2) / e) * (e * u / d).atanh();
    let qp = 1.0 + ((1.0 - e2) / e) * e.atanh();
    (t1 + t2, qp)
}

/// Authalic colatitude from geodetic colatitude, both measured from the *north* pole, input in
/// [0, pi]. Closed-form WGS84, no series.
pub fn authalic_colat(c: f64) -> f64 {
    let half_pi = std::f64::consts::FRAC_PI_2;
    if c > half_pi {
        // southern hemisphere: mirror (pi - c is exact enough: c is given, not computed)
        return std::f64::consts::PI - authalic_colat_north(std::f64::consts::PI - c);
    }
    authalic_colat_north(c)
}

fn authalic_colat_north(c: f64) -> f64 {
    let (d, qp) = qp_minus_q(c);
    // 1 - sin(beta) = d / qp = 2 sin^2(cb/2)
    let x = (d / (2.0 * qp)).max(0.0).sqrt().min(1.0);
    2.0 * x.asin()
}

/// Inverse of `authalic_colat` by fixed-point iteration on the closed form (contraction factor
/// about 0.007 per step).
pub fn geodetic_colat(cb: f64) -> f64 {
    let mut c = cb;
    for _ in 0..12 {
        let f = authalic_colat(c);
        // multiplicative update keeps relative accuracy next to the poles
        if cb < 0.1 && f > 0.0 {
            c *= cb / f;
        } else if std::f64::consts::PI - cb < 0.1 && std::f64::consts::PI - f > 0.0 {
            let cs = (std::f64::consts::PI - c) * ((std::f64::consts::PI - cb) / (std::f64::consts::PI - f));
            c = std::f64::consts::PI - cs;
        } else {
            c -= f - cb;
        }
    }
    c.clamp(0.0, std::f64::consts::PI)
}

/// Geodetic colatitude (from the north pole) of a latitude in degrees, without cancellation at
/// either pole.
pub fn colat_of_lat_deg(lat_deg: f64) -> f64 {
    (90.0 - lat_deg).to_radians()
}

/// Unit vector on the authalic sphere for a geographic point (|lat| <= 90); x axis at lon 0,
/// z north. The colatitude is measured from the nearer pole, so there is no cancellation.
pub fn vec_of_lonlat(lon_deg: f64, lat_deg: f64) -> V3 {
    let c = (90.0 - lat_deg.abs()).to_radians();
    let cb = authalic_colat_north(c.max(0.0));
    let (s, z) = (cb.sin(), cb.cos());
    let lon = lon_deg.to_radians();
    [s * lon.cos(), s * lon.sin(), if lat_deg >= 0.0 { z } else { -z }]
}

/// (lon_deg, lat_deg) of a unit vector on the authalic sphere. Longitude in (-180, 180].
pub fn lonlat_of_vec(v: V3) -> (f64, f64) {
    let v = unit(v);
    let rxy = (v[0] * v[0] + v[1] * v[1]).sqrt();
    let lon = v[1].atan2(v[0]).to_degrees();
    if v[2] >= 0.0 {
        let cb = rxy.atan2(v[2]);
        let c = geodetic_colat(cb);
        (lon, 90.0 - c.to_degrees())
    } else {
        let cbs = rxy.atan2(-v[2]);
        let c = geodetic_colat(cbs);
        (lon, -(90.0 - c.to_degrees()))
    }
}

/// Orthonormal tangent basis at unit vector p.
pub fn tangent_basis(p: V3) -> (V3, V3) {
    let ax = if p[2].abs() < 0.9 { [0.0, 0.0, 1.0] } else { [1.0, 0.0, 0.0] };
    let e1 = unit(cross(ax, p));
    let e2 = cross(p, e1);
    (e1, e2)
}

/// Point at tangent offset (a, b) radians (to first order) from p.
pub fn offset_point(p: V3, a: f64, b: f64) -> V3 {
    let (e1, e2) = tangent_basis(p);
    unit(add(p, add(scale(e1, a), scale(e2, b))))
}

/// Signed area (steradians) of the spherical triangle a, b, c (positive when counter-clockwise seen
/// from outside). Differences first so that tiny triangles keep relative accuracy.
pub fn tri_area(a: V3, b: V3, c: V3) -> f64 {
    let ab = sub(b, a);
    let ac = sub(c, a);
    let num = dot(a, cross(ab, ac));
    let den = 1.0 + dot(a, b) + dot(b, c) + dot(c, a);
    2.0 * num.atan2(den)
}

/// Signed area of a spherical polygon given as an open ring of unit vectors.
pub fn ring_area(ring: &[V3]) -> f64 {
    let n = ring.len();
    let mut s = [0.0; 3];
    for v in ring {
        s = add(s, *v);
    }
    let c = unit(s);
    let mut area = 0.0;
    for i in 0..n {
        area += tri_area(c, ring[i], ring[(i + 1) % n]);
    }
    area
}

/// Result of testing a point against a ring (open ring of unit vectors, any orientation).
#[derive(Debug, Clone, Copy)]
pub struct RingTest {
    /// winding number of the ring about the point (sign = orientation, +1 counter-clockwise)
    pub winding: i32,
    /// distance (radians, gnomonic plane at the point) from the point to the polyline
    pub dist: f64,
    /// false when the ring is not within the point's hemisphere (then `winding` is 0 = outside)
    pub visible: bool,
}

/// Gnomonic projection centred on `p`, winding number and distance to the polyline.
pub fn ring_test(ring: &[V3], p: V3) -> RingTest {
    let (e1, e2) = tangent_basis(p);
    let n = ring.len();
    let mut g: Vec<[f64; 2]> = Vec::with_capacity(n);
    for v in ring {
        let w = dot(*v, p);
        if w <= 0.05 {
            return RingTest { winding: 0, dist: f64::INFINITY, visible: false };
        }
        // differences first: (v - p) . e  keeps the small components exact
        let d = sub(*v, p);
        g.push([dot(d, e1) / w, dot(d, e2) / w]);
    }
    let mut total = 0.0;
    let mut dist = f64::INFINITY;
    for i in 0..n {
        let a = g[i];
        let b = g[(i + 1) % n];
        let cr = a[0] * b[1] - a[1] * b[0];
        let dt = a[0] * b[0] + a[1] * b[1];
        total += cr.atan2(dt);
        // distance from the origin to the segment ab
        let ab = [b[0] - a[0], b[1] - a[1]];
        let l2 = ab[0] * ab[0] + ab[1] * ab[1];
        let t = if l2 > 0.0 { (-(a[0] * ab[0] + a[1] * ab[1]) / l2).clamp(0.0, 1.0) } else { 0.0 };
        let q = [a[0] + t * ab[0], a[1] + t * ab[1]];
        let dd = (q[0] * q[0] + q[1] * q[1]).sqrt();
        if dd < dist {
            dist = dd;
        }
    }
    let winding = (total / std::f64::consts::TAU).round() as i32;
    RingTest { winding, dist, visible: true }
}

/// Largest distance between the odd points of a ring with 2n subdivisions and the chord joining
/// their even neighbours: the sagitta of the n-subdivision ring. `ring` is open with even length.
pub fn sagitta(ring: &[V3]) -> f64 {
    let n = ring.len();
    let mut worst: f64 = 0.0;
    let mut i = 1;
    while i < n {
        let a = ring[i - 1];
        let b = ring[(i + 1) % n];
        let m = ring[i];
        // distance of m from the chord plane/segment: use the great circle through a and b
        let nrm = cross(a, b);
        let l = norm(nrm);
        if l > 0.0 {
            let d = (dot(sub(m, a), nrm) / l).abs();
            worst = worst.max(d);
        }
        i += 2;
    }
    worst
}

// ---------------------------------------------------------------------------------------------
// planar kit

pub type P2 = [f64; 2];

/// Twice the signed area (positive = counter-clockwise) of a planar polygon, computed on
/// coordinates translated to the first vertex.
pub fn poly_area2(p: &[P2]) -> f64 {
    let o = p[0];
    let n = p.len();
    let mut a = 0.0;
    for i in 0..n {
        let u = [p[i][0] - o[0], p[i][1] - o[1]];
        let v = [p[(i + 1) % n][0] - o[0], p[(i + 1) % n][1] - o[1]];
        a += u[0] * v[1] - u[1] * v[0];
    }
    a
}

/// Signed distance of `q` to the convex polygon `p` (positive inside, negative outside, exact
/// perpendicular distance to the nearest supporting line when inside; when outside the most
/// negative perpendicular distance, which is what a containment band needs).
pub fn convex_signed_dist(p: &[P2], q: P2) -> f64 {
    let n = p.len();
    let ccw = poly_area2(p) >= 0.0;
    let mut m = f64::INFINITY;
    for i in 0..n {
        let a = p[i];
        let b = p[(i + 1) % n];
        let ex = b[0] - a[0];
        let ey = b[1] - a[1];
        let l = (ex * ex + ey * ey).sqrt();
        if l == 0.0 {
            continue;
        }
        let mut d = (ex * (q[1] - a[1]) - ey * (q[0] - a[0])) / l;
        if !ccw {
            d = -d;
        }
        if d < m {
            m = d;
        }
    }
    m
}

/// Sutherland–Hodgman: clip convex/any polygon `subj` by convex polygon `clip`. Both are first
/// translated so that `origin` is at 0 (keeps precision for tiny polygons far from the origin).
pub fn clip_area(subj: &[P2], clip: &[P2], origin: P2) -> f64 {
    let tr = |p: &[P2]| -> Vec<P2> { p.iter().map(|v| [v[0] - origin[0], v[1] - origin[1]]).collect() };
    let mut out = tr(subj);
    let mut cl = tr(clip);
    if poly_area2(&cl) < 0.0 {
        cl.reverse();
    }
    let n = cl.len();
    for i in 0..n {
        let a = cl[i];
        let b = cl[(i + 1) % n];
        let inp = std::mem::take(&mut out);
        if inp.is_empty() {
            break;
        }
        let side = |p: P2| (b[0] - a[0]) * (p[1] - a[1]) - (b[1] - a[1]) * (p[0] - a[0]);
        let m = inp.len();
        for j in 0..m {
            let cur = inp[j];
            let prev = inp[(j + m - 1) % m];
            let sc = side(cur);
            let sp = side(prev);
            if sc >= 0.0 {
                if sp < 0.0 {
                    let t = sp / (sp - sc);
                    out.push([prev[0] + t * (cur[0] - prev[0]), prev[1] + t * (cur[1] - prev[1])]);
                }
                out.push(cur);
            } else if sp >= 0.0 {
                let t = sp / (sp - sc);
                out.push([prev[0] + t * (cur[0] - prev[0]), prev[1] + t * (cur[1] - prev[1])]);
            }
        }
    }
    if out.len() < 3 {
        return 0.0;
    }
    (poly_area2(&out) / 2.0).abs()
}

#[cfg(test)]
mod tests {
    use super::*;
    #[test]
    fn authalic_roundtrip() {
        for i in 0..=1000 {
            let c = std::f64::consts::PI * (i as f64) / 1000.0;
            let cb = authalic_colat(c);
            let c2 = geodetic_colat(cb);
            assert!((c - c2).abs() < 1e-14, "{} {}", c, c2);
        }
        for k in 1..16 {
            let c = 10f64.powi(-k);
            let cb = authalic_colat(c);
            let c2 = geodetic_colat(cb);
            assert!(((c - c2) / c).abs() < 1e-13, "{} {}", c, c2);
        }
    }
    #[test]
    fn octant_area() {
        let a = tri_area([1.0, 0.0, 0.0], [0.0, 1.0, 0.0], [0.0, 0.0, 1.0]);
        assert!((a - std::f64::consts::FRAC_PI_2).abs() < 1e-15);
    }
}
