//! PBT engine: proptest `TestRunner`s on worker threads with derived seeds and fixed quotas, so a
//! run is a pure function of (tree, VERIF_SEED, tier). Collects measured statistics for the
//! evidence file and turns the first (worker, case)-ordered failure into a replay file.

use proptest::strategy::{BoxedStrategy, Strategy};
use proptest::test_runner::{Config, RngSeed, TestCaseError, TestError, TestRunner};
use serde_json::{json, Value};
use std::cell::RefCell;
use std::collections::{BTreeMap, HashSet};
use std::fmt::Debug;
use std::hash::{Hash, Hasher};
use std::time::Instant;

#[derive(Debug, Clone, Copy, PartialEq, Eq)]
pub enum Tier {
    Quick,
    Thorough,
}

impl Tier {
    pub fn name(&self) -> &'static str {
        match self {
            Tier::Quick => "quick",
            Tier::Thorough => "thorough",
        }
    }
    /// pick(quick, thorough)
    pub fn pick<T>(&self, q: T, t: T) -> T {
        match self {
            Tier::Quick => q,
            Tier::Thorough => t,
        }
    }
}

pub const WORKERS: usize = 16;
/// how many preceding cases per worker are kept to reproduce history-dependent failures
pub const RECENT_CASES: usize = 12;

#[derive(Default, Debug)]
pub struct Stats {
    pub evals: u64,
    pub nontrivial: HashSet<u64>,
    pub hist: BTreeMap<String, u64>,
    pub fmax: BTreeMap<String, f64>,
    pub samples_nt: Vec<Value>,
    pub samples_tr: Vec<Value>,
    pub frozen: bool,
}

impl Stats {
    pub fn eval(&mut self) {
        if !self.frozen {
            self.evals += 1;
        }
    }
    pub fn hit(&mut self, key: &str) {
        self.add(key, 1);
    }
    pub fn add(&mut self, key: &str, n: u64) {
        if !self.frozen {
            *self.hist.entry(key.to_string()).or_insert(0) += n;
        }
    }
    pub fn max(&mut self, key: &str, v: u64) {
        if !self.frozen {
            let e = self.hist.entry(key.to_string()).or_insert(0);
            if v > *e {
                *e = v;
            }
        }
    }
    /// Track the maximum of a measured float (margins, worst errors).
    pub fn fmax(&mut self, key: &str, v: f64) {
        if !self.frozen && v.is_finite() {
            let e = self.fmax.entry(key.to_string()).or_insert(f64::NEG_INFINITY);
            if v > *e {
                *e = v;
            }
        }
    }
    /// Record a distinct non-trivial case by fingerprint.
    pub fn nontrivial<H: Hash>(&mut self, fp: &H) {
        if !self.frozen {
            let mut h = std::collections::hash_map::DefaultHasher::new();
            fp.hash(&mut h);
            self.nontrivial.insert(h.finish());
        }
    }
    pub fn sample(&mut self, nontrivial: bool, f: impl FnOnce() -> Value) {
        if self.frozen {
            return;
        }
        let v = if nontrivial { &mut self.samples_nt } else { &mut self.samples_tr };
        if v.len() < 3 {
            v.push(f());
        }
    }
    pub fn merge(&mut self, o: Stats) {
        self.evals += o.evals;
        self.nontrivial.extend(o.nontrivial);
        for (k, v) in o.hist {
            if k.starts_with("max:") {
                let e = self.hist.entry(k).or_insert(0);
                if v > *e {
                    *e = v;
                }
            } else {
                *self.hist.entry(k).or_insert(0) += v;
            }
        }
        for (k, v) in o.fmax {
            let e = self.fmax.entry(k).or_insert(f64::NEG_INFINITY);
            if v > *e {
                *e = v;
            }
        }
        for s in o.samples_nt {
            if self.samples_nt.len() < 4 {
                self.samples_nt.push(s);
            }
        }
        for s in o.samples_tr {
            if self.samples_tr.len() < 2 {
                self.samples_tr.push(s);
            }
        }
    }
}

#[derive(Debug, Clone)]
pub struct Violation {
    pub section: String,
    pub case: Value,
    pub message: String,
    /// cases that have to be executed before `case` on the same thread for the failure to show
    /// (empty for an ordinary, self-contained failure)
    pub preceding: Vec<Value>,
}

/// Result of one section (a PBT campaign or an exhaustive enumeration) of a property.
pub struct SectionResult {
    pub stats: Stats,
    pub violation: Option<Violation>,
}

pub fn mix_seed(seed: u64, tag: &str, worker: usize) -> u64 {
    let mut h = std::collections::hash_map::DefaultHasher::new();
    // DefaultHasher::new() uses fixed keys, so this is stable across processes
    seed.hash(&mut h);
    tag.hash(&mut h);
    worker.hash(&mut h);
    h.finish()
}

thread_local! {
    pub static LAST_PANIC: RefCell<Option<String>> = const { RefCell::new(None) };
}

/// Install a quiet panic hook: panics raised inside checks (library panics are findings, not
/// harness crashes) are recorded per thread instead of being printed thousands of times while
/// shrinking.
pub fn install_panic_hook() {
    let strict = std::env::var("A5VERIF_PANIC_VERBOSE").is_ok();
    std::panic::set_hook(Box::new(move |info| {
        let msg = format!("{}", info);
        if strict {
            eprintln!("{}", msg);
        }
        LAST_PANIC.with(|p| *p.borrow_mut() = Some(msg));
    }));
}

/// Run `check` and convert a panic into an `Err` carrying the panic message.
pub fn guarded<T>(f: impl FnOnce() -> Result<T, String>) -> Result<T, String> {
    match std::panic::catch_unwind(std::panic::AssertUnwindSafe(f)) {
        Ok(r) => r,
        Err(_) => {
            let m = LAST_PANIC.with(|p| p.borrow_mut().take()).unwrap_or_else(|| "panic".into());
            Err(format!("PANIC: {}", m))
        }
    }
}

/// A PBT campaign: `cases` cases on each of `WORKERS` workers.
pub fn run_pbt<T, S, C, J>(
    section: &str,
    seed: u64,
    cases: u32,
    strategy: S,
    check: C,
    to_json: J,
) -> SectionResult
where
    T: Debug + Clone + Send + Sync + 'static,
    S: Fn() -> BoxedStrategy<T> + Sync,
    C: Fn(&T, &mut Stats) -> Result<(), String> + Sync,
    J: Fn(&T) -> Value + Sync,
{
    run_pbt_workers(section, seed, cases, WORKERS, strategy, check, to_json)
}

pub fn run_pbt_workers<T, S, C, J>(
    section: &str,
    seed: u64,
    cases: u32,
    workers: usize,
    strategy: S,
    check: C,
    to_json: J,
) -> SectionResult
where
    T: Debug + Clone + Send + Sync + 'static,
    S: Fn() -> BoxedStrategy<T> + Sync,
    C: Fn(&T, &mut Stats) -> Result<(), String> + Sync,
    J: Fn(&T) -> Value + Sync,
{
    let results: Vec<(Stats, Option<(T, String, Vec<T>)>)> = std::thread::scope(|sc| {
        let handles: Vec<_> = (0..workers)
            .map(|w| {
                let strategy = &strategy;
                let check = &check;
                std::thread::Builder::new()
                    .stack_size(64 << 20)
                    .spawn_scoped(sc, move || {
                        let cfg = Config {
                            cases,
                            failure_persistence: None,
                            rng_seed: RngSeed::Fixed(mix_seed(seed, section, w)),
                            max_shrink_iters: 4000,
                            max_global_rejects: 1 << 20,
                            verbose: 0,
                            ..Config::default()
                        };
                        let mut runner = TestRunner::new(cfg);
                        let stats = RefCell::new(Stats::default());
                        let first: RefCell<Option<String>> = RefCell::new(None);
                        let first_case: RefCell<Option<(T, Vec<T>)>> = RefCell::new(None);
                        let recent: RefCell<std::collections::VecDeque<T>> = RefCell::new(std::collections::VecDeque::new());
                        let strat = strategy();
                        let res = runner.run(&strat, |case| {
                            let mut st = stats.borrow_mut();
                            st.eval();
                            let r = guarded(|| check(&case, &mut st));
                            match r {
                                Ok(()) => {
                                    if !st.frozen {
                                        let mut q = recent.borrow_mut();
                                        if q.len() == RECENT_CASES {
                                            q.pop_front();
                                        }
                                        q.push_back(case.clone());
                                    }
                                    Ok(())
                                }
                                Err(m) => {
                                    if !st.frozen {
                                        *first.borrow_mut() = Some(m.clone());
                                        *first_case.borrow_mut() = Some((case.clone(), recent.borrow().iter().cloned().collect()));
                                    }
                                    st.frozen = true;
                                    Err(TestCaseError::fail(m))
                                }
                            }
                        });
                        let fail = match res {
                            Ok(()) => None,
                            Err(TestError::Fail(reason, case)) => {
                                let mut m = reason.message().to_string();
                                if let Some(f) = first.borrow().as_ref() {
                                    if *f != m {
                                        m = format!("{}  [first failure before shrinking: {}]", m, f);
                                    }
                                }
                                // Is the shrunk case a self-contained reproduction? Re-run it alone in a
                                // fresh thread (cold thread-local state).
                                let alone = std::thread::scope(|s2| {
                                    s2.spawn(|| {
                                        let mut st = Stats::default();
                                        st.frozen = true;
                                        guarded(|| check(&case, &mut st))
                                    })
                                    .join()
                                    .unwrap_or_else(|_| Err("panic".into()))
                                });
                                if alone.is_err() {
                                    Some((case, m, Vec::new()))
                                } else {
                                    // history-dependent: the failure needs calls made before it on the same
                                    // thread. Find the shortest suffix of the preceding cases that, followed
                                    // by the originally failing case, reproduces it in a fresh thread.
                                    let (orig, prev) = first_case.borrow().clone().unwrap_or((case.clone(), Vec::new()));
                                    let mut found: Option<Vec<T>> = None;
                                    for k in 0..=prev.len() {
                                        let suffix: Vec<T> = prev[prev.len() - k..].to_vec();
                                        let res = std::thread::scope(|s2| {
                                            let suffix = &suffix;
                                            let orig = &orig;
                                            s2.spawn(move || {
                                                let mut st = Stats::default();
                                                st.frozen = true;
                                                for c in suffix {
                                                    let _ = guarded(|| check(c, &mut st));
                                                }
                                                guarded(|| check(orig, &mut st))
                                            })
                                            .join()
                                            .unwrap_or_else(|_| Err("panic".into()))
                                        });
                                        if res.is_err() {
                                            found = Some(suffix);
                                            break;
                                        }
                                    }
                                    let fm = first.borrow().clone().unwrap_or(m.clone());
                                    match found {
                                        Some(pre) if pre.is_empty() => Some((
                                            orig,
                                            format!("{}  [the shrunk case did not reproduce alone in a fresh thread; the originally failing case does and is the one recorded]", fm),
                                            pre,
                                        )),
                                        Some(pre) => Some((
                                            orig,
                                            format!(
                                                "{}  [HISTORY-DEPENDENT: this case passes when run first in a fresh thread and fails only after the {} preceding case(s) recorded in the replay file]",
                                                fm,
                                                pre.len()
                                            ),
                                            pre,
                                        )),
                                        None => Some((
                                            orig,
                                            format!(
                                                "{}  [NOT REPRODUCIBLE IN ISOLATION: neither the case alone nor the last {} cases of its worker reproduce the failure in a fresh thread; it depends on process-wide state or on timing]",
                                                fm,
                                                prev.len()
                                            ),
                                            Vec::new(),
                                        )),
                                    }
                                }
                            }
                            Err(TestError::Abort(reason)) => {
                                eprintln!("harness: proptest aborted in section {}: {}", section, reason.message());
                                std::process::exit(2);
                            }
                        };
                        (stats.into_inner(), fail)
                    })
                    .unwrap()
            })
            .collect();
        handles.into_iter().map(|h| h.join().expect("worker thread died")).collect()
    });
    let mut stats = Stats::default();
    let mut violation = None;
    for (st, fail) in results {
        stats.merge(st);
        if violation.is_none() {
            if let Some((case, msg, pre)) = fail {
                violation = Some(Violation { section: section.to_string(), case: to_json(&case), message: msg, preceding: pre.iter().map(|c| to_json(c)).collect() });
            }
        }
    }
    stats.frozen = false;
    SectionResult { stats, violation }
}

/// Exhaustive enumeration of indices 0..n split into contiguous chunks over the workers. The
/// violation with the smallest index is reported.
pub fn run_exhaustive<C, J>(section: &str, n: u64, check: C, to_json: J) -> SectionResult
where
    C: Fn(u64, &mut Stats) -> Result<(), String> + Sync,
    J: Fn(u64) -> Value + Sync,
{
    let workers = WORKERS as u64;
    let chunk = n.div_ceil(workers).max(1);
    let results: Vec<(Stats, Option<(u64, String)>)> = std::thread::scope(|sc| {
        let handles: Vec<_> = (0..workers)
            .map(|w| {
                let check = &check;
                std::thread::Builder::new()
                    .stack_size(64 << 20)
                    .spawn_scoped(sc, move || {
                        let mut st = Stats::default();
                        let lo = (w * chunk).min(n);
                        let hi = ((w + 1) * chunk).min(n);
                        for i in lo..hi {
                            st.eval();
                            if let Err(m) = guarded(|| check(i, &mut st)) {
                                return (st, Some((i, m)));
                            }
                        }
                        (st, None)
                    })
                    .unwrap()
            })
            .collect();
        handles.into_iter().map(|h| h.join().expect("worker thread died")).collect()
    });
    let mut stats = Stats::default();
    let mut violation = None;
    for (st, fail) in results {
        stats.merge(st);
        if violation.is_none() {
            if let Some((i, msg)) = fail {
                violation = Some(Violation { section: section.to_string(), case: to_json(i), message: msg, preceding: Vec::new() });
            }
        }
    }
    SectionResult { stats, violation }
}

/// Accumulates the sections of one property run.
pub struct Report {
    pub property: &'static str,
    pub tier: Tier,
    pub seed: u64,
    pub stats: Stats,
    pub violation: Option<Violation>,
    pub rule: String,
    pub assumptions: Vec<String>,
    pub exhaustive: Vec<String>,
    pub sections: Vec<Value>,
    pub samples: Vec<Value>,
    pub extra: BTreeMap<String, Value>,
    pub start: Instant,
}

impl Report {
    pub fn new(property: &'static str, tier: Tier, seed: u64, rule: &str) -> Report {
        Report {
            property,
            tier,
            seed,
            stats: Stats::default(),
            violation: None,
            rule: rule.to_string(),
            assumptions: Vec::new(),
            exhaustive: Vec::new(),
            sections: Vec::new(),
            samples: Vec::new(),
            extra: BTreeMap::new(),
            start: Instant::now(),
        }
    }
    pub fn assume(&mut self, s: &str) {
        self.assumptions.push(s.to_string());
    }
    /// Returns true when the run should go on (no violation so far).
    pub fn absorb(&mut self, name: &str, r: SectionResult) -> bool {
        self.sections.push(json!({
            "section": name,
            "evaluations": r.stats.evals,
            "distinct_nontrivial": r.stats.nontrivial.len(),
            "violation": r.violation.is_some(),
        }));
        // up to two non-trivial samples and one other from every section, tagged with the section
        for (i, c) in r.stats.samples_nt.iter().enumerate() {
            if i < 2 && self.samples.len() < 16 {
                self.samples.push(json!({"section": name, "non_trivial": true, "case": c}));
            }
        }
        if let Some(c) = r.stats.samples_tr.first() {
            if self.samples.len() < 16 {
                self.samples.push(json!({"section": name, "non_trivial": false, "case": c}));
            }
        }
        self.stats.merge(r.stats);
        if self.violation.is_none() {
            self.violation = r.violation;
        }
        self.violation.is_none()
    }
    pub fn ok(&self) -> bool {
        self.violation.is_none()
    }
}

pub fn fingerprint<H: Hash>(x: &H) -> u64 {
    let mut h = std::collections::hash_map::DefaultHasher::new();
    x.hash(&mut h);
    h.finish()
}

/// Monotone index mapping (keeps shrinking effective): maps u16 x onto 0..len.
pub fn pick_index(x: u16, len: usize) -> usize {
    ((x as usize) * len) >> 16
}

pub fn boxed<T: Debug, S: Strategy<Value = T> + 'static>(s: S) -> BoxedStrategy<T> {
    s.boxed()
}

// ---------------------------------------------------------------------------------------------
// (de)serialisation of a report, for campaigns that run in child processes

pub fn report_to_json(rep: &Report) -> Value {
    json!({
        "evaluations": rep.stats.evals,
        "nontrivial": rep.stats.nontrivial.iter().collect::<Vec<_>>(),
        "hist": rep.stats.hist,
        "fmax": rep.stats.fmax,
        "samples": rep.samples,
        "sections": rep.sections,
        "extra": rep.extra,
        "violation": rep.violation.as_ref().map(|v| json!({"section": v.section, "case": v.case, "message": v.message, "preceding": v.preceding})),
    })
}

/// Merge a child's report (as produced by `report_to_json`) into `rep`.
pub fn absorb_child_report(rep: &mut Report, v: &Value, salt: u64) {
    rep.stats.evals += v["evaluations"].as_u64().unwrap_or(0);
    if let Some(a) = v["nontrivial"].as_array() {
        for x in a {
            if let Some(h) = x.as_u64() {
                rep.stats.nontrivial.insert(h ^ salt);
            }
        }
    }
    if let Some(h) = v["hist"].as_object() {
        for (k, x) in h {
            let n = x.as_u64().unwrap_or(0);
            if k.starts_with("max:") {
                let e = rep.stats.hist.entry(k.clone()).or_insert(0);
                if n > *e {
                    *e = n;
                }
            } else {
                *rep.stats.hist.entry(k.clone()).or_insert(0) += n;
            }
        }
    }
    if let Some(h) = v["fmax"].as_object() {
        for (k, x) in h {
            if let Some(f) = x.as_f64() {
                let e = rep.stats.fmax.entry(k.clone()).or_insert(f64::NEG_INFINITY);
                if f > *e {
                    *e = f;
                }
            }
        }
    }
    if let Some(a) = v["samples"].as_array() {
        for x in a {
            if rep.samples.len() < 16 {
                rep.samples.push(x.clone());
            }
        }
    }
    if let Some(a) = v["sections"].as_array() {
        for x in a {
            rep.sections.push(x.clone());
        }
    }
    if let Some(e) = v["extra"].as_object() {
        for (k, x) in e {
            rep.extra.insert(k.clone(), x.clone());
        }
    }
    if rep.violation.is_none() && v["violation"].is_object() {
        let w = &v["violation"];
        rep.violation = Some(Violation {
            section: w["section"].as_str().unwrap_or("").to_string(),
            case: w["case"].clone(),
            message: w["message"].as_str().unwrap_or("").to_string(),
            preceding: w["preceding"].as_array().cloned().unwrap_or_default(),
        });
    }
}
