//! C01 — point lookup returns a cell of the requested resolution that contains the point.

use super::contain::{self, RingVerdict};
use crate::api;
use crate::engine::*;
use crate::gen;
use crate::oracle::codec::{self, Cell};
use crate::oracle::geo::*;
use proptest::prelude::*;
use serde_json::{json, Value};

const RULE: &str = "points: the §3.1 mixture (uniform, polar caps, log-distance from a pole, exact poles, antimeridian, the 62 \
special points of the dodecahedron, face edges, quintant borders, projection seams) and cell-relative points placed \
10^U(-9,-1) cell sizes inside/outside a random edge or next to a corner of a random cell; x resolution 0..29 uniform; \
each with a metamorphic partner (longitude + 360k; at a pole another longitude). Oracles: boundary-ring winding (outside \
the ring's sagitta band) and planar signed distance (>= -1.5e-12), neither using the library's containment test. \
non-trivial = the lookup was answered by a probe sample or the fallback (hook), or the point is within 1e-6 cell sizes \
of an edge, or |lat| >= 70, or within 1e-6 rad of a seam/vertex/face centre; distinct by (point bits, resolution). A second section runs hook-guided walks (hill climbing on the index of the probe \
sample that answered) so that the rare points needing the last probes, or the fallback, are reached.";

#[derive(Debug, Clone)]
pub enum Src {
    Spec(gen::PointSpec),
    /// cell, edge index, t along the edge, log10 of the offset in cell sizes, side (true = inside)
    Edge { cell: gen::CellSpec, edge: u8, t: f64, log_off: f64, inside: bool },
    /// a point in the wedge at a corner of a cell: distance 10^log_rho cell sizes from the corner, at
    /// fraction `frac` of the cell's interior angle at that corner, measured from the next edge (values
    /// outside [0, 1] fall in the neighbouring cells): the region where the lookup's search is hardest
    Corner { cell: gen::CellSpec, corner: u8, log_rho: f64, frac: f64 },
}

#[derive(Debug, Clone)]
pub struct Case {
    pub src: Src,
    pub res: i32,
    pub wrap: i8,
    pub lon2: f64,
}

pub fn src_json(s: &Src) -> Value {
    match s {
        Src::Spec(p) => json!({"kind": "spec", "p": gen::point_json(p)}),
        Src::Edge { cell, edge, t, log_off, inside } => json!({"kind": "edge", "cell": gen::cellspec_json(cell), "edge": edge, "t": t, "log_off": log_off, "inside": inside}),
        Src::Corner { cell, corner, log_rho, frac } => json!({"kind": "corner", "cell": gen::cellspec_json(cell), "corner": corner, "log_rho": log_rho, "frac": frac}),
    }
}
pub fn src_from_json(v: &Value) -> Option<Src> {
    Some(match v["kind"].as_str()? {
        "spec" => Src::Spec(gen::point_from_json(&v["p"])?),
        "edge" => Src::Edge {
            cell: gen::cellspec_from_json(&v["cell"])?,
            edge: v["edge"].as_u64()? as u8,
            t: v["t"].as_f64()?,
            log_off: v["log_off"].as_f64()?,
            inside: v["inside"].as_bool()?,
        },
        "corner" => Src::Corner {
            cell: gen::cellspec_from_json(&v["cell"])?,
            corner: v["corner"].as_u64()? as u8,
            log_rho: v["log_rho"].as_f64()?,
            frac: v["frac"].as_f64()?,
        },
        _ => return None,
    })
}
fn case_json(c: &Case) -> Value {
    json!({"src": src_json(&c.src), "res": c.res, "wrap": c.wrap, "lon2": c.lon2})
}
fn case_from_json(v: &Value) -> Option<Case> {
    Some(Case { src: src_from_json(&v["src"])?, res: v["res"].as_i64()? as i32, wrap: v["wrap"].as_i64()? as i8, lon2: v["lon2"].as_f64()? })
}

pub fn src_strategy(weights: [u32; 9], edge_weight: u32) -> BoxedStrategy<Src> {
    let corner_weight = edge_weight.min(3);
    if std::env::var("A5VERIF_C01_ONLY_CORNERS").is_ok() {
        return on_corner_strategy();
    }
    prop_oneof![
        corner_weight => (gen::cell_spec(2, 29), 0u8..5, prop_oneof![2 => -3.0f64..-0.7, 4 => -2.3f64..-1.0, 2 => -12.0f64..-3.0, 1 => Just(-300.0f64)], prop_oneof![
                2 => -0.5f64..1.5,
                3 => (0.0f64..1.0, any::<bool>()).prop_map(|(u, s)| { let d = 10f64.powf(-3.5 + 2.7 * u); if s { d } else { -d } }),
                3 => (0.0f64..1.0, any::<bool>()).prop_map(|(u, s)| { let d = 10f64.powf(-3.5 + 2.7 * u); if s { 1.0 - d } else { 1.0 + d } }),
            ])
            .prop_map(|(cell, corner, log_rho, frac)| Src::Corner { cell, corner, log_rho, frac }),
        (10 - edge_weight) => gen::point_spec(weights).prop_map(Src::Spec),
        edge_weight => (gen::cell_spec(1, 29), 0u8..5, prop_oneof![3 => 0.0f64..1.0, 1 => (0.0f64..1.0).prop_map(|u| 10f64.powf(-9.0 + 8.0 * u)), 1 => (0.0f64..1.0).prop_map(|u| 1.0 - 10f64.powf(-9.0 + 8.0 * u))], -9.0f64..-1.0, any::<bool>())
            .prop_map(|(cell, edge, t, log_off, inside)| Src::Edge { cell, edge, t, log_off, inside }),
    ]
    .boxed()
}

/// Only points within rounding .. 1e-6 cell sizes of a cell corner (where every adjacent cell can fail
/// the strict containment test and the lookup has to fall back; this is how defect D13 shows).
pub fn on_corner_strategy() -> BoxedStrategy<Src> {
    (gen::cell_spec(2, 29), 0u8..5, prop_oneof![1 => Just(-300.0f64), 1 => -14.0f64..-6.0], -0.5f64..1.5)
        .prop_map(|(cell, corner, log_rho, frac)| Src::Corner { cell, corner, log_rho, frac })
        .boxed()
}

impl Src {
    /// The same source with cell-relative points re-based on a cell of resolution `res` (so that an
    /// edge-hugging or corner point hugs a cell of the resolution that is looked up).
    pub fn with_res(&self, res: i32) -> Src {
        match self {
            Src::Spec(p) => Src::Spec(*p),
            Src::Edge { cell, edge, t, log_off, inside } => {
                let mut c = *cell;
                c.res = res.max(1);
                Src::Edge { cell: c, edge: *edge, t: *t, log_off: *log_off, inside: *inside }
            }
            Src::Corner { cell, corner, log_rho, frac } => {
                let mut c = *cell;
                c.res = res.max(1);
                Src::Corner { cell: c, corner: *corner, log_rho: *log_rho, frac: *frac }
            }
        }
    }
    /// (lon, lat, class label)
    pub fn lonlat(&self) -> Result<(f64, f64, &'static str), String> {
        match self {
            Src::Spec(p) => {
                let g = p.point();
                Ok((g.lon, g.lat, g.class_name()))
            }
            Src::Edge { cell, edge, t, log_off, inside } => {
                let c = cell.cell();
                let pent = api::pentagon(&c)?;
                let n = pent.len();
                let a = pent[*edge as usize % n];
                let b = pent[(*edge as usize + 1) % n];
                let size = (poly_area2(&pent).abs() / 2.0).sqrt();
                let ccw = poly_area2(&pent) >= 0.0;
                let (ex, ey) = (b[0] - a[0], b[1] - a[1]);
                let l = (ex * ex + ey * ey).sqrt();
                // inward normal
                let (mut nx, mut ny) = (-ey / l, ex / l);
                if !ccw {
                    nx = -nx;
                    ny = -ny;
                }
                let off = 10f64.powf(*log_off) * size * if *inside { 1.0 } else { -1.0 };
                let q = [a[0] + t * ex + off * nx, a[1] + t * ey + off * ny];
                let v = api::inverse(q, c.face)?;
                let (lon, lat) = lonlat_of_vec(v);
                Ok((lon, lat.clamp(-90.0, 90.0), if *inside { "edge-hugging-inside" } else { "edge-hugging-outside" }))
            }
            Src::Corner { cell, corner, log_rho, frac } => {
                let c = cell.cell();
                let pent = api::pentagon(&c)?;
                let n = pent.len();
                let k = *corner as usize % n;
                let size = (poly_area2(&pent).abs() / 2.0).sqrt();
                let a = pent[k];
                let nb = pent[(k + 1) % n];
                // frac in [0, 1] sweeps the cell's interior angle at the corner from the next edge to the
                // previous edge; values outside [0, 1] lie in the neighbouring cells
                let pv = pent[(k + n - 1) % n];
                let base = (nb[1] - a[1]).atan2(nb[0] - a[0]);
                let other = (pv[1] - a[1]).atan2(pv[0] - a[0]);
                let mut interior = other - base;
                let ccw = poly_area2(&pent) >= 0.0;
                if ccw {
                    while interior <= 0.0 {
                        interior += std::f64::consts::TAU;
                    }
                } else {
                    while interior >= 0.0 {
                        interior -= std::f64::consts::TAU;
                    }
                }
                let ang = base + interior * frac;
                let rho = 10f64.powf(*log_rho) * size;
                let q = [a[0] + rho * ang.cos(), a[1] + rho * ang.sin()];
                let v = api::inverse(q, c.face)?;
                let (lon, lat) = lonlat_of_vec(v);
                Ok((lon, lat.clamp(-90.0, 90.0), if *log_rho < -3.0 { "on-a-corner(within rounding .. 1e-3 cell sizes)" } else { "corner-wedge" }))
            }
        }
    }
}

fn lookup(lon: f64, lat: f64, res: i32) -> Result<(u64, Cell, i32), String> {
    let id = a5::lonlat_to_cell(api::lonlat(lon, lat), res).map_err(|e| format!("lonlat_to_cell(({}, {}), {}) failed: {}", lon, lat, res, e))?;
    let branch = a5::core::cell::verif_last_lookup_branch();
    let c = codec::decode(id).ok_or_else(|| format!("lonlat_to_cell(({}, {}), {}) returned non-canonical ID {:#x}", lon, lat, res, id))?;
    if c.res != res || a5::get_resolution(id) != res {
        return Err(format!("lonlat_to_cell(({}, {}), {}) returned {:#x} of resolution {}", lon, lat, res, id, c.res));
    }
    Ok((id, c, branch))
}

pub fn check_case(case: &Case, st: &mut Stats) -> Result<(), String> {
    let res = case.res;
    // cell-relative points hug a cell of the looked-up resolution (3 of 4 cases) or of another one
    let src = if case.wrap.rem_euclid(4) != 3 { case.src.with_res(res) } else { case.src.clone() };
    let (lon, lat, class) = src.lonlat()?;
    let p = vec_of_lonlat(lon, lat);
    // one time in four the same point is first looked up at another resolution (choice derived from the case):
    // the answer must contain the point whatever was asked just before
    let sel = (case.lon2.to_bits() >> 9) % 16;
    if sel < 4 {
        let other = if sel < 3 { (res + 1 + ((case.lon2.to_bits() >> 14) % 6) as i32).min(29) } else { (res - 1 - ((case.lon2.to_bits() >> 14) % 3) as i32).max(0) };
        if other != res {
            let _ = a5::lonlat_to_cell(api::lonlat(lon, lat), other);
        }
    }
    let (id, _c, branch) = lookup(lon, lat, res)?;
    let v = contain::contains(id, p)?;
    if !v.contained {
        return Err(format!(
            "lonlat_to_cell(({}, {}), {}) = {:#x} does not contain the point: planar signed distance {:.3e} (cell size {:.3e}), boundary ring says {:?} at distance {:.3e} [class {}, lookup branch {}]",
            lon, lat, res, id, v.planar, contain::cell_size(res), v.ring, v.ring_dist, class, branch
        ));
    }
    // metamorphic partner
    let at_pole = lat.abs() == 90.0;
    let (lon_b, what) = if at_pole { (case.lon2, "another longitude at the pole") } else { (lon + 360.0 * case.wrap as f64, "longitude + 360k") };
    let (id_b, _cb, _) = lookup(lon_b, lat, res)?;
    if id_b != id {
        let vb = contain::contains(id_b, p)?;
        if !vb.contained {
            return Err(format!(
                "({}, {}) at resolution {} gives {:#x} but {} ({}, {}) gives {:#x}, which does not contain the same physical point (planar {:.3e})",
                lon, lat, res, id, what, lon_b, lat, id_b, vb.planar
            ));
        }
        if v.strict && !at_pole {
            return Err(format!(
                "({}, {}) is strictly inside {:#x} (margin {:.3e}) but the same point given as longitude {} maps to {:#x}",
                lon, lat, id, v.planar, lon_b, id_b
            ));
        }
        st.hit("partner-gave-different-cell(edge band or pole)");
    }
    let rel_margin = if v.planar.is_finite() { v.planar.abs() / contain::cell_size(res) } else { 1.0 };
    let sdist = super::c15::structure_distance(p);
    let hard_branch = branch >= 2 || branch == -1;
    let nt = hard_branch || rel_margin < 1e-6 || lat.abs() >= 70.0 || sdist < 1e-6;
    if nt {
        st.nontrivial(&(lon.to_bits(), lat.to_bits(), res));
    }
    st.hit(&format!("class:{}", class));
    st.hit(&format!("res:{:02}", res));
    st.hit(&format!("branch:{}", match branch { 0 => "direct-estimate".to_string(), -1 => "fallback".to_string(), -2 => "no-search(r<2)".to_string(), k => format!("probe-{:02}", k) }));
    st.hit(&format!("lat-band:{}", if lat.abs() >= 89.9 { ">=89.9" } else if lat.abs() >= 80.0 { "80-89.9" } else if lat.abs() >= 70.0 { "70-80" } else { "<70" }));
    st.hit(&format!("decided-by:{}", match v.ring { RingVerdict::Band => "planar(edge band)", _ => "ring" }));
    if v.planar.abs() <= contain::BAND {
        st.hit("inside-rounding-band(counted, contained by tolerance)");
    }
    st.sample(nt, || json!({"lon": lon, "lat": lat, "res": res, "class": class, "cell": format!("{:x}", id), "planar_margin": v.planar, "branch": branch, "partner_lon": lon_b}));
    Ok(())
}

/// A longitude far outside [-180, 180]: the statement quantifies over *any finite longitude*. The
/// longitude handed to the library is one double `big`; the physical point it denotes is
/// `big % 360` (the IEEE remainder of a division is exact), so the oracle needs no rounding
/// allowance beyond the usual edge band.
#[derive(Debug, Clone)]
pub struct FarCase {
    pub src: Src,
    pub res: i32,
    /// 0: lon + 360 K with |K| = floor(10^mag) (rounded to a double); 1: an arbitrary huge double
    /// built from `bits` with binary exponent 50 + mag * 69
    pub kind: u8,
    pub mag: f64,
    pub neg: bool,
    pub bits: u64,
}

fn far_json(c: &FarCase) -> Value {
    json!({"src": src_json(&c.src), "res": c.res, "kind": c.kind, "mag": c.mag, "neg": c.neg, "bits": c.bits.to_string()})
}
fn far_from_json(v: &Value) -> Option<FarCase> {
    Some(FarCase {
        src: src_from_json(&v["src"])?,
        res: v["res"].as_i64()? as i32,
        kind: v["kind"].as_u64()? as u8,
        mag: v["mag"].as_f64()?,
        neg: v["neg"].as_bool()?,
        bits: v["bits"].as_str()?.parse().ok()?,
    })
}

pub fn far_longitude(lon: f64, c: &FarCase) -> f64 {
    let sign = if c.neg { -1.0 } else { 1.0 };
    if c.kind == 0 {
        let k = 10f64.powf(c.mag).floor();
        lon + sign * 360.0 * k
    } else {
        // mantissa from the bits, exponent 50..=1023
        let e = (50.0 + c.mag / 14.0 * 973.0).floor().clamp(50.0, 1023.0) as i32;
        let m = 1.0 + (c.bits >> 12) as f64 / (1u64 << 52) as f64;
        let v = sign * m * 2f64.powi(e);
        if v.is_finite() { v } else { sign * f64::MAX }
    }
}

pub fn check_far(case: &FarCase, st: &mut Stats) -> Result<(), String> {
    let res = case.res;
    let src = case.src.with_res(res);
    let (lon, lat, class) = src.lonlat()?;
    let big = far_longitude(lon, case);
    if !big.is_finite() {
        return Ok(());
    }
    // the physical longitude of `big`, exactly
    let phys = big % 360.0;
    let p = vec_of_lonlat(phys, lat);
    let (id, _c, branch) = lookup(big, lat, res)?;
    let v = contain::contains(id, p)?;
    if !v.contained {
        return Err(format!(
            "lonlat_to_cell(({:e}, {}), {}) = {:#x} does not contain the point: longitude {:e} is exactly {} modulo 360, planar signed distance of that point {:.3e} (cell size {:.3e}), boundary ring says {:?} at distance {:.3e} [class {}, lookup branch {}]",
            big, lat, res, id, big, phys, v.planar, contain::cell_size(res), v.ring, v.ring_dist, class, branch
        ));
    }
    // the same physical point given by its reduced longitude
    let (id0, _c0, _) = lookup(phys, lat, res)?;
    if id0 != id {
        let v0 = contain::contains(id0, p)?;
        if !v0.contained {
            return Err(format!(
                "lonlat_to_cell(({}, {}), {}) = {:#x} does not contain the point (planar {:.3e})",
                phys, lat, res, id0, v0.planar
            ));
        }
        if v.strict && v0.strict && lat.abs() != 90.0 {
            return Err(format!(
                "longitude {:e} and its reduced form {} denote the same point at latitude {}, strictly inside {:#x} (margin {:.3e}) and strictly inside {:#x} (margin {:.3e}) at resolution {}: cells of one resolution overlap or the lookup is inconsistent",
                big, phys, lat, id, v.planar, id0, v0.planar, res
            ));
        }
        st.hit("far:reduced-longitude-gave-different-cell(edge band or pole)");
    }
    st.nontrivial(&(big.to_bits(), lat.to_bits(), res));
    st.hit(&format!("far:kind-{}", if case.kind == 0 { "lon+360K" } else { "huge-double" }));
    st.hit(&format!("far:magnitude-1e{:+04}", big.abs().log10().floor() as i32 / 4 * 4));
    st.hit(&format!("far:class:{}", class));
    st.sample(true, || json!({"longitude": big, "exactly_mod_360": phys, "lat": lat, "res": res, "cell": format!("{:x}", id), "planar_margin": v.planar, "branch": branch}));
    Ok(())
}

pub fn far_strategy() -> BoxedStrategy<FarCase> {
    (src_strategy(gen::DEFAULT_POINT_WEIGHTS, 3), res_strategy(0), prop_oneof![3 => Just(0u8), 1 => Just(1u8)], 0.6f64..14.0, any::<bool>(), any::<u64>())
        .prop_map(|(src, res, kind, mag, neg, bits)| FarCase { src, res, kind, mag, neg, bits })
        .boxed()
}

/// Guided walk (targeted PBT): from a start point, repeatedly try a generated small displacement
/// (a fraction of a cell) and move there when the lookup needed a *later* probe sample (read
/// through the `verif` hook) than at the current point — a hill climb towards the rare points for
/// which the heuristic search is hardest. Every visited point is a full C01 case (containment
/// asserted), so the walk can only add evidence, never weaken the oracle.
#[derive(Debug, Clone)]
pub struct Walk {
    pub src: Src,
    pub res: i32,
    /// displacement proposals: (direction, log10 of the step in cell sizes)
    pub steps: Vec<(f64, f64)>,
}

fn walk_json(w: &Walk) -> Value {
    json!({"src": src_json(&w.src), "res": w.res, "steps": w.steps})
}
fn walk_from_json(v: &Value) -> Option<Walk> {
    Some(Walk {
        src: src_from_json(&v["src"])?,
        res: v["res"].as_i64()? as i32,
        steps: v["steps"].as_array()?.iter().map(|x| Some((x[0].as_f64()?, x[1].as_f64()?))).collect::<Option<Vec<_>>>()?,
    })
}

/// One C01 evaluation at a sphere point; returns the probe index that answered (hook).
fn eval_point(p: V3, res: i32, st: &mut Stats) -> Result<i32, String> {
    let (lon, lat) = lonlat_of_vec(p);
    let lat = lat.clamp(-90.0, 90.0);
    let pv = vec_of_lonlat(lon, lat);
    let (id, _c, branch) = lookup(lon, lat, res)?;
    let v = contain::contains(id, pv)?;
    if !v.contained {
        return Err(format!(
            "lonlat_to_cell(({}, {}), {}) = {:#x} does not contain the point: planar signed distance {:.3e} (cell size {:.3e}), boundary ring says {:?} at distance {:.3e} [reached by a guided walk, lookup branch {}]",
            lon, lat, res, id, v.planar, contain::cell_size(res), v.ring, v.ring_dist, branch
        ));
    }
    st.eval();
    let score = if branch == -1 { 99 } else { branch };
    if score >= 2 {
        st.nontrivial(&(lon.to_bits(), lat.to_bits(), res));
    }
    if std::env::var("A5VERIF_DEBUG").is_ok() && (branch >= 13 || branch == -1) {
        // where in its cell does a hard point lie? (edge margin and distance to the nearest corner, in cell sizes)
        if let Some(cc) = codec::decode(id) {
            if let (Ok(pent), Ok(q)) = (api::pentagon(&cc), api::forward(pv, cc.face)) {
                let size = (poly_area2(&pent).abs() / 2.0).sqrt();
                let dc = pent.iter().map(|c| ((c[0] - q[0]).powi(2) + (c[1] - q[1]).powi(2)).sqrt()).fold(f64::INFINITY, f64::min);
                eprintln!("HARD res={} branch={} margin/size={:.4} corner-dist/size={:.4} lon={} lat={}", res, branch, v.planar / size, dc / size, lon, lat);
            }
        }
    }
    st.hit(&format!("walk-branch:{}", match branch { 0 => "direct-estimate".to_string(), -1 => "fallback".to_string(), -2 => "no-search(r<2)".to_string(), k => format!("probe-{:02}", k) }));
    Ok(score)
}

pub fn check_walk(w: &Walk, st: &mut Stats) -> Result<(), String> {
    let res = w.res;
    let (lon, lat, _class) = w.src.with_res(res).lonlat()?;
    let size = contain::cell_size(res);
    let mut p = vec_of_lonlat(lon, lat);
    let mut best = eval_point(p, res, st)?;
    for (dir, log_step) in &w.steps {
        let d = 10f64.powf(*log_step) * size;
        let q = offset_point(p, d * dir.cos(), d * dir.sin());
        let score = eval_point(q, res, st)?;
        if score >= best {
            best = score;
            p = q;
        }
    }
    st.max("max:walk-best-probe-index(99=fallback)", best as u64);
    st.hit(&format!("walk-end-probe:{:02}", best.min(99)));
    st.sample(best >= 10, || json!({"walk_start": [lon, lat], "res": res, "steps": w.steps.len(), "best_probe_index": best}));
    Ok(())
}

pub fn walk_strategy() -> BoxedStrategy<Walk> {
    (src_strategy(gen::DEFAULT_POINT_WEIGHTS, 6), res_strategy(2), proptest::collection::vec((0.0f64..std::f64::consts::TAU, -2.5f64..0.3), 10..40))
        .prop_map(|(src, res, steps)| Walk { src, res, steps })
        .boxed()
}

/// Resolutions: uniform, with extra weight on both ends of the range (where range-dependent
/// behaviour such as scale floors, digit-buffer sizes or bit budgets would bite).
pub fn res_strategy(min: i32) -> BoxedStrategy<i32> {
    prop_oneof![3 => min..=29, 1 => prop::sample::select(vec![min, min + 1, 27, 28, 29, 29])].boxed()
}

pub fn case_strategy() -> BoxedStrategy<Case> {
    (src_strategy(gen::DEFAULT_POINT_WEIGHTS, 3), res_strategy(0), -3i8..=3, -180.0f64..180.0)
        .prop_map(|(src, res, wrap, lon2)| Case { src, res, wrap, lon2 })
        .boxed()
}

pub fn run(tier: Tier, seed: u64) -> Report {
    let mut rep = Report::new("C01", tier, seed, RULE);
    rep.assume("planar oracle reuses the library's forward projection (pinned by C15) and pentagon placement (C17); ring oracle reuses cell_to_boundary (C11)");
    let r = run_pbt("lookups", seed, tier.pick(40_000, 1_500_000), case_strategy, check_case, case_json);
    if !rep.absorb("lookups", r) {
        return rep;
    }
    let r = run_pbt(
        "on-corner",
        seed,
        tier.pick(15_000, 500_000),
        || (on_corner_strategy(), res_strategy(2), -3i8..=3, -180.0f64..180.0).prop_map(|(src, res, wrap, lon2)| Case { src, res, wrap, lon2 }).boxed(),
        check_case,
        case_json,
    );
    if !rep.absorb("on-corner", r) {
        return rep;
    }
    let r = run_pbt("far-longitudes", seed, tier.pick(10_000, 400_000), far_strategy, check_far, far_json);
    if !rep.absorb("far-longitudes", r) {
        return rep;
    }
    let r = run_pbt("guided-walks", seed, tier.pick(1_500, 60_000), walk_strategy, check_walk, walk_json);
    rep.absorb("guided-walks", r);
    rep
}

pub fn replay(section: &str, case: &Value) -> Option<Result<(), String>> {
    let mut st = Stats::default();
    Some(guarded(|| match section {
        "lookups" | "on-corner" => check_case(&case_from_json(case).ok_or("bad case")?, &mut st),
        "far-longitudes" => check_far(&far_from_json(case).ok_or("bad case")?, &mut st),
        "guided-walks" => check_walk(&walk_from_json(case).ok_or("bad case")?, &mut st),
        _ => Err(format!("unknown section {}", section)),
    }))
}
