//! C01 — point lookup returns a cell of the requested resolution that contains the point.

use super::contain::{self, RingVerdict};
use crate::api;
use crate::engine::*;
use crate::gen;
use crate::oracle::codec::{self, Cell};
use crate::oracle::geo::*;
use proptest::prelude::*;
use serde_json::{json, Value};

const RULE: &str = "points: the §3.1 mixture (uniform, polar caps, log-distance from a pole, exact poles, antimeridian, the 62 \
special points of the dodecahedron, face edges, quintant borders, projection seams) and cell-relative points placed \
10^U(-9,-1) cell sizes inside/outside a random edge or next to a corner of a random cell; x resolution 0..29 uniform; \
each with a metamorphic partner (longitude + 360k; at a pole another longitude). Oracles: boundary-ring winding (outside \
the ring's sagitta band) and planar signed distance (>= -1.5e-12), neither using the library's containment test. \
non-trivial = the lookup was answered by a probe sample or the fallback (hook), or the point is within 1e-6 cell sizes \
of an edge, or |lat| >= 70, or within 1e-6 rad of a seam/vertex/face centre; distinct by (point bits, resolution).";

#[derive(Debug, Clone)]
pub enum Src {
    Spec(gen::PointSpec),
    /// cell, edge index, t along the edge, log10 of the offset in cell sizes, side (true = inside)
    Edge { cell: gen::CellSpec, edge: u8, t: f64, log_off: f64, inside: bool },
}

#[derive(Debug, Clone)]
pub struct Case {
    pub src: Src,
    pub res: i32,
    pub wrap: i8,
    pub lon2: f64,
}

pub fn src_json(s: &Src) -> Value {
    match s {
        Src::Spec(p) => json!({"kind": "spec", "p": gen::point_json(p)}),
        Src::Edge { cell, edge, t, log_off, inside } => json!({"kind": "edge", "cell": gen::cellspec_json(cell), "edge": edge, "t": t, "log_off": log_off, "inside": inside}),
    }
}
pub fn src_from_json(v: &Value) -> Option<Src> {
    Some(match v["kind"].as_str()? {
        "spec" => Src::Spec(gen::point_from_json(&v["p"])?),
        "edge" => Src::Edge {
            cell: gen::cellspec_from_json(&v["cell"])?,
            edge: v["edge"].as_u64()? as u8,
            t: v["t"].as_f64()?,
            log_off: v["log_off"].as_f64()?,
            inside: v["inside"].as_bool()?,
        },
        _ => return None,
    })
}
fn case_json(c: &Case) -> Value {
    json!({"src": src_json(&c.src), "res": c.res, "wrap": c.wrap, "lon2": c.lon2})
}
fn case_from_json(v: &Value) -> Option<Case> {
    Some(Case { src: src_from_json(&v["src"])?, res: v["res"].as_i64()? as i32, wrap: v["wrap"].as_i64()? as i8, lon2: v["lon2"].as_f64()? })
}

pub fn src_strategy(weights: [u32; 9], edge_weight: u32) -> BoxedStrategy<Src> {
    prop_oneof![
        (10 - edge_weight) => gen::point_spec(weights).prop_map(Src::Spec),
        edge_weight => (gen::cell_spec(1, 29), 0u8..5, prop_oneof![3 => 0.0f64..1.0, 1 => (0.0f64..1.0).prop_map(|u| 10f64.powf(-9.0 + 8.0 * u)), 1 => (0.0f64..1.0).prop_map(|u| 1.0 - 10f64.powf(-9.0 + 8.0 * u))], -9.0f64..-1.0, any::<bool>())
            .prop_map(|(cell, edge, t, log_off, inside)| Src::Edge { cell, edge, t, log_off, inside }),
    ]
    .boxed()
}

impl Src {
    /// (lon, lat, class label)
    pub fn lonlat(&self) -> Result<(f64, f64, &'static str), String> {
        match self {
            Src::Spec(p) => {
                let g = p.point();
                Ok((g.lon, g.lat, g.class_name()))
            }
            Src::Edge { cell, edge, t, log_off, inside } => {
                let c = cell.cell();
                let pent = api::pentagon(&c)?;
                let n = pent.len();
                let a = pent[*edge as usize % n];
                let b = pent[(*edge as usize + 1) % n];
                let size = (poly_area2(&pent).abs() / 2.0).sqrt();
                let ccw = poly_area2(&pent) >= 0.0;
                let (ex, ey) = (b[0] - a[0], b[1] - a[1]);
                let l = (ex * ex + ey * ey).sqrt();
                // inward normal
                let (mut nx, mut ny) = (-ey / l, ex / l);
                if !ccw {
                    nx = -nx;
                    ny = -ny;
                }
                let off = 10f64.powf(*log_off) * size * if *inside { 1.0 } else { -1.0 };
                let q = [a[0] + t * ex + off * nx, a[1] + t * ey + off * ny];
                let v = api::inverse(q, c.face)?;
                let (lon, lat) = lonlat_of_vec(v);
                Ok((lon, lat.clamp(-90.0, 90.0), if *inside { "edge-hugging-inside" } else { "edge-hugging-outside" }))
            }
        }
    }
}

fn lookup(lon: f64, lat: f64, res: i32) -> Result<(u64, Cell, i32), String> {
    let id = a5::lonlat_to_cell(api::lonlat(lon, lat), res).map_err(|e| format!("lonlat_to_cell(({}, {}), {}) failed: {}", lon, lat, res, e))?;
    let branch = a5::core::cell::verif_last_lookup_branch();
    let c = codec::decode(id).ok_or_else(|| format!("lonlat_to_cell(({}, {}), {}) returned non-canonical ID {:#x}", lon, lat, res, id))?;
    if c.res != res || a5::get_resolution(id) != res {
        return Err(format!("lonlat_to_cell(({}, {}), {}) returned {:#x} of resolution {}", lon, lat, res, id, c.res));
    }
    Ok((id, c, branch))
}

pub fn check_case(case: &Case, st: &mut Stats) -> Result<(), String> {
    let (lon, lat, class) = case.src.lonlat()?;
    let res = case.res;
    let p = vec_of_lonlat(lon, lat);
    let (id, _c, branch) = lookup(lon, lat, res)?;
    let v = contain::contains(id, p)?;
    if !v.contained {
        return Err(format!(
            "lonlat_to_cell(({}, {}), {}) = {:#x} does not contain the point: planar signed distance {:.3e} (cell size {:.3e}), boundary ring says {:?} at distance {:.3e} [class {}, lookup branch {}]",
            lon, lat, res, id, v.planar, contain::cell_size(res), v.ring, v.ring_dist, class, branch
        ));
    }
    // metamorphic partner
    let at_pole = lat.abs() == 90.0;
    let (lon_b, what) = if at_pole { (case.lon2, "another longitude at the pole") } else { (lon + 360.0 * case.wrap as f64, "longitude + 360k") };
    let (id_b, _cb, _) = lookup(lon_b, lat, res)?;
    if id_b != id {
        let vb = contain::contains(id_b, p)?;
        if !vb.contained {
            return Err(format!(
                "({}, {}) at resolution {} gives {:#x} but {} ({}, {}) gives {:#x}, which does not contain the same physical point (planar {:.3e})",
                lon, lat, res, id, what, lon_b, lat, id_b, vb.planar
            ));
        }
        if v.strict && !at_pole {
            return Err(format!(
                "({}, {}) is strictly inside {:#x} (margin {:.3e}) but the same point given as longitude {} maps to {:#x}",
                lon, lat, id, v.planar, lon_b, id_b
            ));
        }
        st.hit("partner-gave-different-cell(edge band or pole)");
    }
    let rel_margin = if v.planar.is_finite() { v.planar.abs() / contain::cell_size(res) } else { 1.0 };
    let sdist = super::c15::structure_distance(p);
    let hard_branch = branch >= 2 || branch == -1;
    let nt = hard_branch || rel_margin < 1e-6 || lat.abs() >= 70.0 || sdist < 1e-6;
    if nt {
        st.nontrivial(&(lon.to_bits(), lat.to_bits(), res));
    }
    st.hit(&format!("class:{}", class));
    st.hit(&format!("res:{:02}", res));
    st.hit(&format!("branch:{}", match branch { 0 => "direct-estimate".to_string(), -1 => "fallback".to_string(), -2 => "no-search(r<2)".to_string(), k => format!("probe-{:02}", k) }));
    st.hit(&format!("lat-band:{}", if lat.abs() >= 89.9 { ">=89.9" } else if lat.abs() >= 80.0 { "80-89.9" } else if lat.abs() >= 70.0 { "70-80" } else { "<70" }));
    st.hit(&format!("decided-by:{}", match v.ring { RingVerdict::Band => "planar(edge band)", _ => "ring" }));
    if v.planar.abs() <= contain::BAND {
        st.hit("inside-rounding-band(counted, contained by tolerance)");
    }
    st.sample(nt, || json!({"lon": lon, "lat": lat, "res": res, "class": class, "cell": format!("{:x}", id), "planar_margin": v.planar, "branch": branch, "partner_lon": lon_b}));
    Ok(())
}

pub fn case_strategy() -> BoxedStrategy<Case> {
    (src_strategy(gen::DEFAULT_POINT_WEIGHTS, 3), 0i32..=29, -3i8..=3, -180.0f64..180.0)
        .prop_map(|(src, res, wrap, lon2)| Case { src, res, wrap, lon2 })
        .boxed()
}

pub fn run(tier: Tier, seed: u64) -> Report {
    let mut rep = Report::new("C01", tier, seed, RULE);
    rep.assume("planar oracle reuses the library's forward projection (pinned by C15) and pentagon placement (C17); ring oracle reuses cell_to_boundary (C11)");
    let r = run_pbt("lookups", seed, tier.pick(40_000, 1_500_000), case_strategy, check_case, case_json);
    rep.absorb("lookups", r);
    rep
}

pub fn replay(section: &str, case: &Value) -> Option<Result<(), String>> {
    let mut st = Stats::default();
    Some(guarded(|| match section {
        "lookups" => check_case(&case_from_json(case).ok_or("bad case")?, &mut st),
        _ => Err(format!("unknown section {}", section)),
    }))
}
