//! C05 — cell-ID codec (bits and hex) is a bijection with the documented layout.

use crate::api::{from_a5cell, to_a5cell};
use crate::engine::*;
use crate::gen;
use crate::oracle::codec::{self, Cell};
use a5::core::serialization::{deserialize, serialize};
use proptest::prelude::*;
use serde_json::{json, Value};

const RULE: &str = "cells: (face, quintant, position, resolution) tuples, exhaustive for low resolutions plus \
position classes (zero, max, digit patterns, block boundaries, uniform) for r up to 29; non-trivial = r >= 2 with \
position != 0 and face*quintant != 0, distinct by ID. hex: u64 values (uniform, boundaries, single bits, valid IDs) \
and strings from three grammars; non-trivial = value >= 2^32 or a string that is not a canonical rendering, \
distinct by value/string.";

/// All codec assertions for one cell description.
pub fn check_cell(c: &Cell, st: &mut Stats) -> Result<(), String> {
    let want = codec::encode(c);
    let got = serialize(&to_a5cell(c)).map_err(|e| format!("serialize({:?}) failed: {}", c, e))?;
    if got != want {
        return Err(format!(
            "serialize({:?}) = {:#018x}, documented layout gives {:#018x}",
            c, got, want
        ));
    }
    let back = deserialize(got).map_err(|e| format!("deserialize({:#x}) failed: {}", got, e))?;
    let back = from_a5cell(&back);
    if back != *c {
        return Err(format!("deserialize(serialize({:?})) = {:?}", c, back));
    }
    let r = a5::get_resolution(got);
    if r != c.res {
        return Err(format!("get_resolution({:#x}) = {}, encoded {}", got, r, c.res));
    }
    if codec::decode(got) != Some(*c) {
        return Err(format!("ID {:#x} of {:?} is not canonical per the documented layout", got, c));
    }
    let nt = c.res >= 2 && c.pos != 0 && (c.face as u32 * c.quintant as u32) != 0;
    if nt {
        st.nontrivial(&got);
    }
    st.hit(&format!("res:{:02}", c.res));
    st.sample(nt, || gen::cell_json(c));
    Ok(())
}

pub fn hex_value_check(v: u64, st: &mut Stats) -> Result<(), String> {
    let s = a5::u64_to_hex(v);
    let canonical = !s.is_empty()
        && s.len() <= 16
        && s.bytes().all(|b| b.is_ascii_digit() || (b'a'..=b'f').contains(&b))
        && (s == "0" || !s.starts_with('0'));
    if !canonical {
        return Err(format!("u64_to_hex({}) = {:?} is not 1-16 lower-case digits without leading zeros", v, s));
    }
    match a5::hex_to_u64(&s) {
        Ok(b) if b == v => {}
        other => return Err(format!("hex_to_u64(u64_to_hex({})) = {:?}", v, other)),
    }
    // independent rendering
    let mut own = String::new();
    let mut x = v;
    if x == 0 {
        own.push('0');
    }
    while x > 0 {
        own.insert(0, char::from_digit((x & 15) as u32, 16).unwrap());
        x >>= 4;
    }
    if own != s {
        return Err(format!("u64_to_hex({}) = {:?}, expected {:?}", v, s, own));
    }
    let nt = v >= (1u64 << 32);
    if nt {
        st.nontrivial(&v);
    }
    st.sample(nt, || json!({"value": v, "hex": s}));
    Ok(())
}

/// Big-integer evaluation of an all-hex-digit string: Some(value) if it fits in 64 bits.
fn own_parse(s: &str) -> Option<Option<u64>> {
    // returns None if s has a non-hex char; Some(None) if too wide; Some(Some(v)) otherwise
    let mut v: u128 = 0;
    let mut wide = false;
    for ch in s.chars() {
        let d = ch.to_digit(16)?;
        if !wide {
            v = v * 16 + d as u128;
            if v > u64::MAX as u128 {
                wide = true;
            }
        }
    }
    if wide {
        Some(None)
    } else {
        Some(Some(v as u64))
    }
}

pub fn hex_string_check(s: &String, st: &mut Stats) -> Result<(), String> {
    let r = a5::hex_to_u64(s);
    if s.is_empty() {
        if r.is_ok() {
            return Err("hex_to_u64(\"\") returned Ok".into());
        }
        st.hit("hex:empty");
    }
    let all_hex = !s.is_empty() && s.chars().all(|c| c.is_ascii_hexdigit());
    match (own_parse(s), &r) {
        (Some(None), Ok(v)) if all_hex => {
            return Err(format!("hex_to_u64({:?}) = {:#x}: a digit string wider than 64 bits must be an error", s, v));
        }
        (Some(Some(want)), Ok(v)) if all_hex => {
            if *v != want {
                return Err(format!("hex_to_u64({:?}) = {:#x}, digits evaluate to {:#x}", s, v, want));
            }
            st.hit("hex:ok-digits");
        }
        (Some(Some(want)), Err(e)) if all_hex => {
            // only the canonical spelling (what the formatter produces: lower case, no leading zeros) is
            // promised to parse; a stricter parser may refuse upper case or padded digits
            if *s == format!("{:x}", want) {
                return Err(format!("hex_to_u64({:?}) rejected the canonical spelling of {:#x}: {}", s, want, e));
            }
            st.hit("hex:err-noncanonical-digits(allowed)");
        }
        (_, Ok(_)) => {
            // accepted beyond the statement (a sign, a prefix, blanks ...): the statement is silent on what
            // such a string means, so nothing is asserted about the value
            st.hit("hex:ok-beyond-the-statement(not asserted)");
        }
        (_, Err(_)) => st.hit("hex:err"),
    }
    let canonical = r.as_ref().map(|v| a5::u64_to_hex(*v) == *s).unwrap_or(false);
    if !canonical {
        st.nontrivial(s);
    }
    st.sample(!canonical, || json!({"string": s, "result": format!("{:?}", r)}));
    Ok(())
}

fn hex_values() -> BoxedStrategy<u64> {
    prop_oneof![
        4 => any::<u64>(),
        1 => (0u32..64).prop_map(|b| 1u64 << b),
        1 => (0u32..64).prop_map(|b| (1u64 << b).wrapping_sub(1)),
        1 => (0u32..64).prop_map(|b| u64::MAX << b),
        1 => prop_oneof![Just(0u64), Just(u64::MAX), Just(u64::MAX - 1), Just(1u64 << 63), Just(0xfu64), Just(0x10u64)],
        3 => gen::cell(-1, 29).prop_map(|c| codec::encode(&c)),
    ]
    .boxed()
}

fn hex_strings() -> BoxedStrategy<String> {
    prop_oneof![
        3 => "[0-9a-f]{0,20}",
        3 => "[0-9a-fA-F+\\- xX]{0,20}",
        2 => "\\PC{0,12}",
        1 => "0{0,6}[0-9a-f]{14,18}",
        1 => "(0x|0X|\\+|-|\\+\\+| )?[0-9a-fA-F]{1,17}",
        1 => any::<u64>().prop_map(|v| format!("{:x}", v)),
        1 => any::<u64>().prop_map(|v| format!("{:X}", v)),
        1 => any::<u64>().prop_map(|v| format!("1{:016x}", v)),
    ]
    .boxed()
}

pub fn run(tier: Tier, seed: u64) -> Report {
    let mut rep = Report::new("C05", tier, seed, RULE);
    rep.assume("the layout restated in oracle/codec.rs (incl. the per-face rotation table) is the documented one");

    // 1. exhaustive low resolutions
    let max_ex = tier.pick(8, 10);
    for res in -1..=max_ex {
        let n = codec::num_cells(res) as u64;
        let r = run_exhaustive(
            &format!("exhaustive-r{}", res),
            n,
            |i, st| check_cell(&gen::cell_by_index(res, i), st),
            |i| json!({"res": res, "index": i}),
        );
        rep.exhaustive.push(format!("all {} cells of resolution {}", n, res));
        if !rep.absorb(&format!("exhaustive-r{}", res), r) {
            return rep;
        }
    }
    // injectivity over the exhaustive part: IDs of different cells differ. The encoder oracle is
    // injective by construction (checked here by sortedness of its output per resolution and
    // disjoint markers), and serialize == oracle on every cell, so serialize is injective there.
    {
        let r = run_exhaustive(
            "injective-oracle",
            (max_ex + 2) as u64,
            |i, _st| {
                let res = i as i32 - 1;
                let n = codec::num_cells(res) as u64;
                let mut prev: Option<u64> = None;
                // enumerate in (code, pos) order: the IDs must be strictly increasing
                let mut ids: Vec<u64> = (0..n).map(|j| codec::encode(&gen::cell_by_index(res, j))).collect();
                ids.sort_unstable();
                for id in ids {
                    if prev == Some(id) {
                        return Err(format!("two cells of resolution {} share ID {:#x}", res, id));
                    }
                    if a5::get_resolution(id) != res {
                        return Err(format!("ID {:#x} read back at another resolution", id));
                    }
                    prev = Some(id);
                }
                Ok(())
            },
            |i| json!({"res": i as i64 - 1}),
        );
        if !rep.absorb("injective-oracle", r) {
            return rep;
        }
    }

    // 2. generated cells up to r = 29
    let r = run_pbt(
        "cells",
        seed,
        tier.pick(500_000, 10_000_000),
        || gen::cell_spec(-1, 29).boxed(),
        |spec, st| {
            st.hit(&format!("pos-class:{}", gen::POS_CLASSES[spec.pos_class as usize % 9]));
            check_cell(&spec.cell(), st)
        },
        gen::cellspec_json,
    );
    if !rep.absorb("cells", r) {
        return rep;
    }

    // 3. hex values
    let r = run_pbt("hex-values", seed, tier.pick(200_000, 4_000_000), hex_values, |v, st| hex_value_check(*v, st), |v| json!(v));
    if !rep.absorb("hex-values", r) {
        return rep;
    }
    // 4. hex strings
    let r = run_pbt("hex-strings", seed, tier.pick(200_000, 4_000_000), hex_strings, hex_string_check, |s| json!(s));
    rep.absorb("hex-strings", r);
    rep
}

pub fn replay(section: &str, case: &Value) -> Option<Result<(), String>> {
    let mut st = Stats::default();
    Some(guarded(|| {
        if section.starts_with("exhaustive-r") {
            let res = case["res"].as_i64().ok_or("bad case")? as i32;
            let i = case["index"].as_u64().ok_or("bad case")?;
            check_cell(&gen::cell_by_index(res, i), &mut st)
        } else if section == "cells" {
            let spec = gen::cellspec_from_json(case).ok_or("bad case")?;
            check_cell(&spec.cell(), &mut st)
        } else if section == "hex-values" {
            hex_value_check(case.as_u64().ok_or("bad case")?, &mut st)
        } else if section == "hex-strings" {
            hex_string_check(&case.as_str().ok_or("bad case")?.to_string(), &mut st)
        } else {
            Err(format!("unknown section {}", section))
        }
    }))
}
