//! C04 — all cells of a resolution have equal area: sphere area / number of cells.

use crate::api;
use crate::engine::*;
use crate::gen;
use crate::oracle::codec::{self, Cell};
use crate::oracle::geo::*;
use proptest::prelude::*;
use serde_json::{json, Value};

const RULE: &str = "cells r = 0..29 from the independent encoder (every face/quintant, position classes) and, for >= 30% of the \
cases, the cell found by lookup at a special point (poles, polar caps, dodecahedron vertices/edges/seams, antimeridian); \
exhaustive over all cells of the low resolutions; a further section takes the r = 24..27 cells lying on the radii at which the inverse projection changes numerical branch (bisection on the verif hook's branch signature). Oracle: area of the reported boundary ring (64 subdivisions per edge; independent authalic conversion and fan integrator) == 4 pi / N(r) to 1e-4 relative; metadata: get_num_cells \
and cell_area against the harness's own N(r) and WGS84 authalic area. non-trivial = r >= 2 (curved edges); distinct by cell ID.";

#[derive(Debug, Clone)]
pub enum Pick {
    Spec(gen::CellSpec),
    At(gen::PointSpec, i32),
}

pub fn pick_json(p: &Pick) -> Value {
    match p {
        Pick::Spec(s) => json!({"kind": "spec", "cell": gen::cellspec_json(s)}),
        Pick::At(p, r) => json!({"kind": "at", "point": gen::point_json(p), "res": r}),
    }
}
pub fn pick_from_json(v: &Value) -> Option<Pick> {
    Some(match v["kind"].as_str()? {
        "spec" => Pick::Spec(gen::cellspec_from_json(&v["cell"])?),
        "at" => Pick::At(gen::point_from_json(&v["point"])?, v["res"].as_i64()? as i32),
        _ => return None,
    })
}

/// Strategy for cells: `special` out of 10 cases come from a lookup at a special point.
pub fn picks(min_res: i32, max_res: i32, special: u32) -> BoxedStrategy<Pick> {
    prop_oneof![
        (10 - special) => gen::cell_spec(min_res, max_res).prop_map(Pick::Spec),
        special => (gen::point_spec([2, 10, 18, 6, 14, 20, 10, 10, 10]), min_res.max(0)..=max_res).prop_map(|(p, r)| Pick::At(p, r)),
    ]
    .boxed()
}

impl Pick {
    /// The cell ID and a label of how it was chosen.
    pub fn resolve(&self) -> Result<(u64, Cell, &'static str), String> {
        match self {
            Pick::Spec(s) => {
                let c = s.cell();
                Ok((codec::encode(&c), c, "encoder"))
            }
            Pick::At(p, r) => {
                let g = p.point();
                let id = a5::lonlat_to_cell(api::lonlat(g.lon, g.lat), *r).map_err(|e| format!("lonlat_to_cell(({}, {}), {}) failed: {}", g.lon, g.lat, r, e))?;
                let c = codec::decode(id).ok_or_else(|| format!("lonlat_to_cell returned non-canonical {:#x}", id))?;
                Ok((id, c, g.class_name()))
            }
        }
    }
}

pub fn subdivisions(res: i32, tier: Tier) -> i32 {
    // 64 everywhere: for cells touching a face centre the polyline error does not shrink with the
    // cell (edge curvature there grows like 1/rho): measured 4.2e-5 at 16 subdivisions, 2.6e-6 at 64
    let _ = (res, tier);
    64
}

pub fn check_cell_area(id: u64, c: &Cell, n: i32, label: &str, st: &mut Stats) -> Result<(), String> {
    let ring = api::boundary_vecs(id, n)?;
    let a = ring_area(&ring).abs();
    let want = 4.0 * std::f64::consts::PI / codec::num_cells(c.res) as f64;
    let rel = (a / want - 1.0).abs();
    st.fmax(&format!("area-relative-error(n={})", n), rel);
    if std::env::var("A5VERIF_DEBUG").is_ok() { st.fmax(&format!("dbg-res{:02}-{}", c.res, label), rel); }
    if !(rel <= 1e-4) {
        return Err(format!(
            "cell {:#x} (res {}, face {}, quintant {}, pos {}) has area {:.9e} sr from its boundary ({} subdivisions), expected 4pi/N = {:.9e} (rel. error {:.3e} > 1e-4)",
            id, c.res, c.face, c.quintant, c.pos, a, n, want, rel
        ));
    }
    let nt = c.res >= 2;
    if nt {
        st.nontrivial(&id);
    }
    st.hit(&format!("res:{:02}", c.res));
    st.hit(&format!("chosen-by:{}", label));
    st.hit(&format!("face-quintant:{:02}-{}", c.face, c.quintant));
    st.sample(nt, || json!({"cell": gen::cell_json(c), "chosen_by": label, "subdivisions": n, "area_sr": a, "expected_sr": want, "rel_error": rel}));
    Ok(())
}

/// Cells of r = 24..27 that sit on a *switch-over* of the plane-to-sphere map (the radius, along a ray from a face
/// centre, at which `inverse` changes numerical branch; found by bisection on the `verif` hook's branch signature,
/// as in C16). A step between two branches that do not meet exactly changes the area of exactly those cells and of
/// no others; the point classes of the main section never land there. Resolutions above 27 are left to the main
/// section: below a cell size of ~5e-9 the map's own rounding noise eats into the 1e-4 tolerance (see C16).
#[derive(Debug, Clone)]
pub struct SwitchPick {
    pub face: u8,
    pub gamma: f64,
    pub log_r1: f64,
    pub log_r2: f64,
    pub res: i32,
}
pub fn switch_json(p: &SwitchPick) -> Value {
    json!({"face": p.face, "gamma": p.gamma, "log_r1": p.log_r1, "log_r2": p.log_r2, "res": p.res})
}
pub fn switch_from_json(v: &Value) -> Option<SwitchPick> {
    Some(SwitchPick { face: v["face"].as_u64()? as u8, gamma: v["gamma"].as_f64()?, log_r1: v["log_r1"].as_f64()?, log_r2: v["log_r2"].as_f64()?, res: v["res"].as_i64()? as i32 })
}
fn inverse_signature(q: P2, face: u8) -> Result<(V3, u32), String> {
    let v = api::inverse(q, face).map_err(|e| format!("inverse failed: {}", e))?;
    Ok((v, a5::projections::polyhedral::verif_last_inverse_branches()))
}
pub fn check_switch_cell(p: &SwitchPick, st: &mut Stats) -> Result<(), String> {
    let step36 = std::f64::consts::PI / 5.0;
    // keep the ray away from the ten seams of the face, and the far end inside the face
    let k = (p.gamma / step36).floor();
    let within = (p.gamma / step36 - k).clamp(0.0, 1.0);
    let g = (k + 0.08 + 0.84 * within) * step36;
    let dir = [g.cos(), g.sin()];
    let step72 = 2.0 * step36;
    let rel = g - (g / step72).round() * step72;
    let rho_max = (super::c15::R_EDGE - 0.01) / rel.cos();
    let (mut lo, mut hi) = (rho_max * 10f64.powf(p.log_r1.min(p.log_r2)), rho_max * 10f64.powf(p.log_r1.max(p.log_r2)));
    let at = |r: f64| [r * dir[0], r * dir[1]];
    let (s_lo, s_hi) = (inverse_signature(at(lo), p.face)?.1, inverse_signature(at(hi), p.face)?.1);
    if s_lo == s_hi {
        st.hit("switch:no-switch-over-between-the-two-radii");
        return Ok(());
    }
    for _ in 0..200 {
        let mid = 0.5 * (lo + hi);
        if !(mid > lo && mid < hi) {
            break;
        }
        if inverse_signature(at(mid), p.face)?.1 == s_lo {
            lo = mid;
        } else {
            hi = mid;
        }
    }
    let (v, _) = inverse_signature(at(hi), p.face)?;
    let (lon, lat) = lonlat_of_vec(v);
    let id = a5::lonlat_to_cell(api::lonlat(lon, lat), p.res).map_err(|e| format!("lonlat_to_cell(({}, {}), {}) failed: {}", lon, lat, p.res, e))?;
    let c = codec::decode(id).ok_or_else(|| format!("lonlat_to_cell returned non-canonical {:#x}", id))?;
    st.hit(&format!("switch:{:#b}->{:#b}", s_lo, s_hi));
    st.hit(&format!("switch:radius:1e{:+03}", hi.log10().floor() as i32));
    check_cell_area(id, &c, 64, "inverse-branch-switch-over", st)
}

fn check_metadata(st: &mut Stats) -> Result<(), String> {
    let e2 = WGS84_F * (2.0 - WGS84_F);
    let e = e2.sqrt();
    let qp = 1.0 + ((1.0 - e2) / e) * e.atanh();
    let earth = 4.0 * std::f64::consts::PI * WGS84_A * WGS84_A * qp / 2.0;
    let world = a5::cell_area(-1);
    if !((world / earth - 1.0).abs() <= 1e-6) {
        return Err(format!("cell_area(-1) = {} m^2, WGS84 authalic sphere area is {} m^2", world, earth));
    }
    for r in 0..=29 {
        st.eval();
        let n = codec::num_cells(r);
        let got = a5::get_num_cells(r) as u128;
        if r <= 27 {
            if got != n {
                return Err(format!("get_num_cells({}) = {}, expected {}", r, got, n));
            }
        } else {
            // documented: rounded like a double
            let nf = n as f64;
            let gf = got as f64;
            if (gf - nf).abs() > nf * f64::EPSILON {
                return Err(format!("get_num_cells({}) = {}, expected {} to within one ulp of a double", r, got, n));
            }
        }
        let a = a5::cell_area(r);
        let rel = (a * (n as f64) / world - 1.0).abs();
        st.fmax("cell_area*N/world-1", rel);
        if !(rel <= 1e-12) {
            return Err(format!("cell_area({}) * N({}) = {} differs from cell_area(-1) = {} by {:.3e} relative", r, r, a * n as f64, world, rel));
        }
        st.nontrivial(&("meta", r));
    }
    Ok(())
}

pub fn run(tier: Tier, seed: u64) -> Report {
    let mut rep = Report::new("C04", tier, seed, RULE);
    rep.assume("boundary rings are the cell (C11 checks ring well-formedness); area measured on the authalic sphere through the harness's own conversion");
    let r = run_exhaustive("metadata", 1, |_, st| check_metadata(st), |_| json!({}));
    if !rep.absorb("metadata", r) {
        return rep;
    }
    let max_ex = tier.pick(3, 5);
    for res in 0..=max_ex {
        let n = codec::num_cells(res) as u64;
        let name = format!("exhaustive-r{}", res);
        let sub = tier.pick(64, 256);
        let r = run_exhaustive(
            &name,
            n,
            |i, st| {
                let c = gen::cell_by_index(res, i);
                check_cell_area(codec::encode(&c), &c, sub, "exhaustive", st)
            },
            |i| json!({"res": res, "index": i, "subdivisions": sub}),
        );
        rep.exhaustive.push(format!("all {} cells of resolution {} at {} subdivisions", n, res, sub));
        if !rep.absorb(&name, r) {
            return rep;
        }
    }
    let r = run_pbt(
        "cells",
        seed,
        tier.pick(15_000, 400_000),
        || picks(0, 29, 3),
        |p, st| {
            let (id, c, label) = p.resolve()?;
            check_cell_area(id, &c, subdivisions(c.res, tier), label, st)
        },
        pick_json,
    );
    if !rep.absorb("cells", r) {
        return rep;
    }
    let r = run_pbt(
        "switch-over-cells",
        seed,
        tier.pick(3_000, 100_000),
        || {
            (0u8..12, 0.0f64..std::f64::consts::TAU, -7.0f64..0.0, -7.0f64..0.0, 24i32..=27)
                .prop_map(|(face, gamma, log_r1, log_r2, res)| SwitchPick { face, gamma, log_r1, log_r2, res })
                .boxed()
        },
        check_switch_cell,
        switch_json,
    );
    rep.absorb("switch-over-cells", r);
    let fq = rep.stats.hist.keys().filter(|k| k.starts_with("face-quintant:")).count();
    rep.extra.insert("face_quintant_pairs_hit_of_60".into(), json!(fq));
    rep
}

pub fn replay(section: &str, case: &Value) -> Option<Result<(), String>> {
    let mut st = Stats::default();
    Some(guarded(|| {
        if section == "metadata" {
            check_metadata(&mut st)
        } else if section.starts_with("exhaustive-r") {
            let c = gen::cell_by_index(case["res"].as_i64().ok_or("bad case")? as i32, case["index"].as_u64().ok_or("bad case")?);
            check_cell_area(codec::encode(&c), &c, case["subdivisions"].as_i64().unwrap_or(64) as i32, "exhaustive", &mut st)
        } else if section == "switch-over-cells" {
            check_switch_cell(&switch_from_json(case).ok_or("bad case")?, &mut st)
        } else if section == "cells" {
            let p = pick_from_json(case).ok_or("bad case")?;
            let (id, c, label) = p.resolve()?;
            check_cell_area(id, &c, subdivisions(c.res, Tier::Quick), label, &mut st)
        } else {
            Err(format!("unknown section {}", section))
        }
    }))
}
