//! C14 — total API: malformed IDs and out-of-range resolutions give Err, never a crash.
//!
//! The campaign runs inside child processes (one per build profile: `release` and the
//! overflow-checked `checked` profile) under an address-space limit and a per-case watchdog.
//! Panics and invalid Ok-results are found (and shrunk) in-process by proptest; aborts, allocation
//! failures and hangs kill the child, whose per-worker "current case" slots then name the
//! candidates, each of which is re-run alone in a fresh child to confirm the culprit.

use crate::engine::*;
use crate::gen;
use crate::oracle::codec::{self, Cell};
use crate::oracle::tree;
use proptest::prelude::*;
use serde_json::{json, Value};
use std::io::{Seek, SeekFrom, Write};
use std::sync::atomic::{AtomicU64, Ordering};
use std::time::{Duration, Instant};

const RULE: &str = "every public function (13) x raw 64-bit IDs (uniform, low-bit-masked, single bit, marker-only, valid cell \
with a flipped bit, valid cell | 1, aliases of the world cell, face code >= 60) x i32 resolutions (uniform in -2..31, \
boundary set incl. MIN/MAX, uniform i32) x finite coordinates (geographic, |lat| > 90, huge, subnormal, +-0), in the \
release and the overflow-checked profile, inside a child process under a 6 GiB address-space limit and a 20 s per-case \
watchdog. Calls whose honest result would exceed 4^8 cells are skipped by the harness's own arithmetic. Oracle: no \
panic / abort / hang; Ok results are valid (canonical IDs of the requested resolution, finite coordinates, agreement \
with the same call on the canonical alias). non-trivial = the ID is not a canonical cell, or the resolution is outside \
0..29, or a coordinate is non-geographic; distinct by (function, arguments).";

pub const MAX_FANOUT: u128 = 1 << 16;

#[derive(Debug, Clone)]
pub enum Call {
    Lookup { lon: f64, lat: f64, res: i32 },
    Centre { id: u64 },
    Boundary { id: u64, n: u8, closed: bool },
    Children { id: u64, res: Option<i32> },
    Parent { id: u64, res: Option<i32> },
    Resolution { id: u64 },
    NumCells { res: i32 },
    Area { res: i32 },
    Compact { ids: Vec<u64> },
    Uncompact { ids: Vec<u64>, res: i32 },
    Res0,
    Hex { v: u64 },
    HexParse { s: String },
}

pub fn call_json(c: &Call) -> Value {
    match c {
        Call::Lookup { lon, lat, res } => json!({"f": "lonlat_to_cell", "lon": lon, "lat": lat, "res": res}),
        Call::Centre { id } => json!({"f": "cell_to_lonlat", "id": id}),
        Call::Boundary { id, n, closed } => json!({"f": "cell_to_boundary", "id": id, "n": n, "closed": closed}),
        Call::Children { id, res } => json!({"f": "cell_to_children", "id": id, "res": res}),
        Call::Parent { id, res } => json!({"f": "cell_to_parent", "id": id, "res": res}),
        Call::Resolution { id } => json!({"f": "get_resolution", "id": id}),
        Call::NumCells { res } => json!({"f": "get_num_cells", "res": res}),
        Call::Area { res } => json!({"f": "cell_area", "res": res}),
        Call::Compact { ids } => json!({"f": "compact", "ids": ids}),
        Call::Uncompact { ids, res } => json!({"f": "uncompact", "ids": ids, "res": res}),
        Call::Res0 => json!({"f": "get_res0_cells"}),
        Call::Hex { v } => json!({"f": "u64_to_hex", "v": v}),
        Call::HexParse { s } => json!({"f": "hex_to_u64", "s": s}),
    }
}

pub fn call_from_json(v: &Value) -> Option<Call> {
    let ids = |v: &Value| -> Option<Vec<u64>> { v.as_array()?.iter().map(|x| x.as_u64()).collect() };
    let ores = |v: &Value| -> Option<i32> { v.as_i64().map(|x| x as i32) };
    Some(match v["f"].as_str()? {
        "lonlat_to_cell" => Call::Lookup { lon: v["lon"].as_f64()?, lat: v["lat"].as_f64()?, res: v["res"].as_i64()? as i32 },
        "cell_to_lonlat" => Call::Centre { id: v["id"].as_u64()? },
        "cell_to_boundary" => Call::Boundary { id: v["id"].as_u64()?, n: v["n"].as_u64()? as u8, closed: v["closed"].as_bool()? },
        "cell_to_children" => Call::Children { id: v["id"].as_u64()?, res: ores(&v["res"]) },
        "cell_to_parent" => Call::Parent { id: v["id"].as_u64()?, res: ores(&v["res"]) },
        "get_resolution" => Call::Resolution { id: v["id"].as_u64()? },
        "get_num_cells" => Call::NumCells { res: v["res"].as_i64()? as i32 },
        "cell_area" => Call::Area { res: v["res"].as_i64()? as i32 },
        "compact" => Call::Compact { ids: ids(&v["ids"])? },
        "uncompact" => Call::Uncompact { ids: ids(&v["ids"])?, res: v["res"].as_i64()? as i32 },
        "get_res0_cells" => Call::Res0,
        "u64_to_hex" => Call::Hex { v: v["v"].as_u64()? },
        "hex_to_u64" => Call::HexParse { s: v["s"].as_str()?.to_string() },
        _ => return None,
    })
}

// ---------------------------------------------------------------------------------------------
// generators (§3.3)

pub fn raw_res() -> BoxedStrategy<i32> {
    prop_oneof![
        5 => -2i32..=31,
        3 => prop::sample::select(vec![i32::MIN, i32::MIN + 1, -1000, -3, -2, -1, 0, 1, 2, 27, 28, 29, 30, 31, 32, 33, 34, 43, 63, 64, 65, 1000, i32::MAX - 1, i32::MAX]),
        1 => any::<i32>(),
    ]
    .boxed()
}

pub fn raw_id() -> BoxedStrategy<u64> {
    let valid = || gen::cell(-1, 29).prop_map(|c| codec::encode(&c));
    prop_oneof![
        3 => valid(),
        2 => any::<u64>(),
        1 => (any::<u64>(), 0u32..64).prop_map(|(v, k)| v & (u64::MAX << k)),
        1 => (any::<u64>(), 0u32..64).prop_map(|(v, k)| v & !(u64::MAX << k)),
        1 => (0u32..64).prop_map(|b| 1u64 << b),
        1 => (0u32..64, 0u32..64).prop_map(|(a, b)| (1u64 << a) | (1u64 << b)),
        2 => (valid(), 0u32..64).prop_map(|(v, b)| v ^ (1u64 << b)),
        1 => valid().prop_map(|v| v | 1),
        1 => (valid(), 0u32..58).prop_map(|(v, b)| v | (1u64 << b)),
        // aliases of the world cell: non-zero patterns whose marker scan finds nothing
        1 => (0u64..64, any::<u64>()).prop_map(|(code, v)| (code << 58) | (v & 0x0155_5555_5555_5554 & !0x3)),
        1 => (58u32..64).prop_map(|b| 1u64 << b),
        1 => (any::<u64>()).prop_map(|v| (v & 0x5555_5555_5555_5555) & !(3u64 << 56)),
        // face code >= 60 / >= 12 with a valid marker
        1 => (60u64..64, gen::cell(1, 29)).prop_map(|(code, c)| (codec::encode(&c) & ((1u64 << 58) - 1)) | (code << 58)),
        1 => (12u64..64).prop_map(|code| (code << 58) | (1u64 << 57)),
    ]
    .boxed()
}

pub fn raw_coord() -> BoxedStrategy<f64> {
    prop_oneof![
        4 => -180.0f64..=180.0,
        2 => -90.0f64..=90.0,
        2 => prop::sample::select(vec![0.0, -0.0, 90.0, -90.0, 180.0, -180.0, 360.0, 89.99999999999999, -89.99999999999999, 1e-300, -1e-300, 5e-324, 1e308, -1e308, f64::MAX, f64::MIN, 1e15, -1e15, 1e22, 540.0, 91.0, -91.0, 270.0]),
        1 => (any::<i64>(), -300i32..300).prop_map(|(m, e)| (m as f64) * 10f64.powi(e)).prop_filter("finite", |x| x.is_finite()),
        1 => (0.0f64..1.0, any::<bool>()).prop_map(|(u, s)| { let d = 10f64.powf(-15.0 + 16.0 * u); if s { 90.0 - d } else { -90.0 + d } }),
    ]
    .boxed()
}

fn opt_res() -> BoxedStrategy<Option<i32>> {
    prop_oneof![1 => Just(None), 4 => raw_res().prop_map(Some)].boxed()
}

/// `steps` doubles up (or down) from x
fn nudge(x: f64, steps: i64) -> f64 {
    let mut b = x;
    for _ in 0..steps.unsigned_abs() {
        let bits = b.to_bits();
        b = if b == 0.0 {
            if steps > 0 { f64::from_bits(1) } else { -f64::from_bits(1) }
        } else if (b > 0.0) == (steps > 0) {
            f64::from_bits(bits + 1)
        } else {
            f64::from_bits(bits - 1)
        };
    }
    b
}

/// Coordinates that sit exactly on the structure of the grid, or a couple of doubles next to it: face centres,
/// dodecahedron vertices, edge midpoints, the meridians -93 + 36 j through them, the poles and the equator - where an
/// azimuth is 0 or 2 pi to rounding, a sector index falls on a table border, a distance is exactly zero. Written
/// up to two whole turns away as well.
pub fn structural_coord() -> BoxedStrategy<(f64, f64)> {
    (0usize..68, any::<bool>(), -2i64..=2, -3i64..=3, -3i64..=3, -12i64..=20)
        .prop_map(|(idx, snap, turns, dlon, dlat, j)| {
            let fr = gen::frame();
            let (lon, lat) = if idx < 12 {
                crate::oracle::geo::lonlat_of_vec(fr.centres[idx])
            } else if idx < 32 {
                crate::oracle::geo::lonlat_of_vec(fr.vertices[idx - 12].0)
            } else if idx < 62 {
                crate::oracle::geo::lonlat_of_vec(fr.edges[idx - 32].0)
            } else {
                // on a structural meridian at a plain latitude
                (-93.0 + 36.0 * j as f64, [0.0, 45.0, -45.0, 70.0, -70.0, 10.0][idx - 62])
            };
            // the structural meridians are whole degrees (-93 + 36 j): snap to the exact value half of the time
            let lon = if snap { lon.round() } else { lon };
            let lon = lon + 360.0 * turns as f64;
            (nudge(lon, dlon), nudge(lat, dlat))
        })
        .boxed()
}

pub fn calls() -> BoxedStrategy<Call> {
    prop_oneof![
        4 => (raw_coord(), raw_coord(), raw_res()).prop_map(|(lon, lat, res)| Call::Lookup { lon, lat, res }),
        2 => (structural_coord(), prop_oneof![3 => 0i32..=29, 1 => raw_res()]).prop_map(|((lon, lat), res)| Call::Lookup { lon, lat, res }),
        3 => raw_id().prop_map(|id| Call::Centre { id }),
        3 => (raw_id(), 0u8..3, any::<bool>()).prop_map(|(id, n, closed)| Call::Boundary { id, n, closed }),
        4 => (raw_id(), opt_res()).prop_map(|(id, res)| Call::Children { id, res }),
        4 => (raw_id(), opt_res()).prop_map(|(id, res)| Call::Parent { id, res }),
        1 => raw_id().prop_map(|id| Call::Resolution { id }),
        1 => raw_res().prop_map(|res| Call::NumCells { res }),
        1 => raw_res().prop_map(|res| Call::Area { res }),
        3 => proptest::collection::vec(raw_id(), 0..8).prop_map(|ids| Call::Compact { ids }),
        // runs of stride-spaced IDs starting at any raw ID (what the sibling detection adds up), plus strays
        2 => (raw_id(), 1usize..14, proptest::collection::vec(raw_id(), 0..3), any::<bool>()).prop_map(|(base, n, extra, high)| {
            let base = if high { base | (0xFu64 << 60) } else { base };
            let r = a5::get_resolution(base);
            let stride = if r < 2 { 1u64 << 58 } else { 1u64 << (2 * (30 - r) as u32) };
            let mut ids: Vec<u64> = (0..n as u64).map(|j| base.wrapping_add(j.wrapping_mul(stride))).collect();
            ids.extend(extra);
            Call::Compact { ids }
        }),
        3 => (proptest::collection::vec(raw_id(), 0..5), raw_res()).prop_map(|(ids, res)| Call::Uncompact { ids, res }),
        1 => Just(Call::Res0),
        1 => any::<u64>().prop_map(|v| Call::Hex { v }),
        1 => prop_oneof![
            2 => "\\PC{0,20}",
            // what parsers special-case: signs, prefixes, blanks, separators - alone, doubled, around digits
            2 => "(0x|0X|x|#|\\+|-|\\+\\+|--| |_|\\.|0x0x)?[0-9a-fA-F]{0,17}(h|H|_| |\\+|-|x)?",
            1 => "[0-9a-fA-FxX+\\-_ ]{0,4}",
        ].prop_map(|s| Call::HexParse { s }),
    ]
    .boxed()
}

// ---------------------------------------------------------------------------------------------
// the oracle

/// The canonical cell a raw ID aliases according to the library's own decoder, restated with the
/// independent encoder. None when the library rejects the ID or the description is not a cell.
fn alias(id: u64) -> Option<(Cell, u64)> {
    let d = a5::core::serialization::deserialize(id).ok()?;
    let c = crate::api::from_a5cell(&d);
    let c = if c.res == -1 { Cell::WORLD } else { c };
    if !c.is_valid() {
        return None;
    }
    Some((c, codec::encode(&c)))
}

/// "Bit patterns that are not a cell are rejected or treated as the canonical cell they alias": a pattern that
/// cannot alias any cell under the documented layout (face/quintant code 60..63 above resolution 0, face code
/// 12..63 at resolution 0 - decided by the harness's own reading of the bits) aliases nothing, so the only
/// allowed outcome of a call that takes it as a cell is Err. The library's own decoder must say the same.
fn not_a_cell_is_rejected(id: u64, ok: bool, what: &str, st: &mut Stats) -> Result<(), String> {
    if !hopeless(id) {
        return Ok(());
    }
    st.hit("not-a-cell(face code out of range): must be rejected");
    if a5::core::serialization::deserialize(id).is_ok() {
        return Err(format!("deserialize({:#x}) accepts a bit pattern whose face code is out of range", id));
    }
    if ok {
        return Err(format!("{}({:#x}, ..) returned Ok for a bit pattern that is not a cell and aliases none (face code out of range; deserialize rejects it)", what, id));
    }
    Ok(())
}

/// A pattern that is laid out like a cell ID - its lowest set bit sits at one of the 30 marker positions (bit 57 for
/// resolution 0, bit 56 for resolution 1, the odd bits 55, 53, .., 1 for resolutions 2..29) - but whose top six
/// bits name no face / quintant: 12..63 at resolution 0, 60..63 above. Patterns whose lowest set bit is anywhere
/// else have no agreed reading (this library scans for the marker from the bottom and may alias them to a cell or to
/// the world cell); they are left to the alias rule.
fn hopeless(id: u64) -> bool {
    if id == 0 {
        return false;
    }
    let top = id >> 58;
    let tz = id.trailing_zeros();
    match tz {
        57 => top >= 12,
        56 => top >= 60,
        t if t <= 55 && t % 2 == 1 => top >= 60,
        _ => false,
    }
}

fn valid_res(r: i32) -> bool {
    (-1..=29).contains(&r)
}

fn canonical_of(id: u64, what: &str) -> Result<Cell, String> {
    codec::decode(id).ok_or_else(|| format!("{} returned {:#x}, which is not a canonical cell ID", what, id))
}

/// Executes one call and validates an Ok result. Err(message) = violation. Returns whether the
/// call was skipped for fan-out.
pub fn check_call(call: &Call, st: &mut Stats) -> Result<(), String> {
    let mut nontrivial = false;
    let id_class = |id: u64, nt: &mut bool| {
        if !codec::is_canonical(id) {
            *nt = true;
        }
    };
    match call {
        Call::Lookup { lon, lat, res } => {
            nontrivial = !(0..=29).contains(res) || lat.abs() > 90.0 || lon.abs() > 180.0;
            let r = a5::lonlat_to_cell(crate::api::lonlat(*lon, *lat), *res);
            if let Ok(id) = r {
                if !valid_res(*res) {
                    return Err(format!("lonlat_to_cell(({:e}, {:e}), {}) returned Ok({:#x}) for a resolution outside -1..29", lon, lat, res, id));
                }
                let c = canonical_of(id, &format!("lonlat_to_cell(({:e}, {:e}), {})", lon, lat, res))?;
                if c.res != *res || a5::get_resolution(id) != *res {
                    return Err(format!("lonlat_to_cell(({:e}, {:e}), {}) returned {:#x}, which decodes to resolution {}", lon, lat, res, id, c.res));
                }
            }
        }
        Call::Centre { id } => {
            id_class(*id, &mut nontrivial);
            let r = a5::cell_to_lonlat(*id);
            not_a_cell_is_rejected(*id, r.is_ok(), "cell_to_lonlat", st)?;
            if let Ok(p) = &r {
                if !p.longitude().is_finite() || !p.latitude().is_finite() {
                    return Err(format!("cell_to_lonlat({:#x}) returned a non-finite coordinate ({}, {})", id, p.longitude(), p.latitude()));
                }
                if let Some((_, canon)) = alias(*id) {
                    if canon != *id {
                        let q = a5::cell_to_lonlat(canon).map_err(|e| format!("cell_to_lonlat({:#x}) is Ok but fails on its canonical alias {:#x}: {}", id, canon, e))?;
                        if q.longitude().to_bits() != p.longitude().to_bits() || q.latitude().to_bits() != p.latitude().to_bits() {
                            return Err(format!("cell_to_lonlat({:#x}) differs from the result for its canonical alias {:#x}", id, canon));
                        }
                    }
                }
            }
        }
        Call::Boundary { id, n, closed } => {
            id_class(*id, &mut nontrivial);
            let segs = [Some(1), Some(3), None][*n as usize % 3];
            let r = a5::cell_to_boundary(*id, Some(a5::core::cell::CellToBoundaryOptions { closed_ring: *closed, segments: segs }));
            not_a_cell_is_rejected(*id, r.is_ok(), "cell_to_boundary", st)?;
            if let Ok(v) = &r {
                for p in v {
                    if !p.longitude().is_finite() || !p.latitude().is_finite() {
                        return Err(format!("cell_to_boundary({:#x}) returned a non-finite coordinate", id));
                    }
                }
            }
        }
        Call::Children { id, res } => {
            id_class(*id, &mut nontrivial);
            if let Some(r) = res {
                nontrivial |= !(0..=29).contains(r);
            }
            let cur = a5::get_resolution(*id);
            let target = res.unwrap_or(cur.saturating_add(1));
            // honest fan-out, only when both resolutions are valid
            if valid_res(cur) && valid_res(target) && target >= cur {
                let fan = codec::num_cells(target) / codec::num_cells(cur);
                if fan > MAX_FANOUT {
                    st.hit("skipped:fan-out>4^8");
                    return Ok(());
                }
            }
            let r = a5::cell_to_children(*id, *res);
            not_a_cell_is_rejected(*id, r.is_ok(), "cell_to_children", st)?;
            if let Ok(v) = &r {
                if !valid_res(target) {
                    return Err(format!("cell_to_children({:#x}, {:?}) returned Ok({} cells) for target resolution {}", id, res, v.len(), target));
                }
                for &k in v {
                    let kc = canonical_of(k, &format!("cell_to_children({:#x}, {:?})", id, res))?;
                    if kc.res != target {
                        return Err(format!("cell_to_children({:#x}, {:?}) returned {:#x} of resolution {} (requested {})", id, res, k, kc.res, target));
                    }
                }
                // a target coarser than the cell is outside C07's domain (res(c) <= r'): the statement asks for an
                // error or canonical IDs of the requested resolution (checked above), not for a particular set
                if let Some((ac, canon)) = alias(*id).filter(|(ac, _)| target >= ac.res) {
                    let mut want: Vec<u64> = tree::descendants(&ac, target).iter().map(codec::encode).collect();
                    let mut got = v.clone();
                    want.sort_unstable();
                    got.sort_unstable();
                    if want != got {
                        return Err(format!("cell_to_children({:#x}, {:?}) is not the set of descendants of the canonical cell {:#x} it aliases", id, res, canon));
                    }
                }
            }
        }
        Call::Parent { id, res } => {
            id_class(*id, &mut nontrivial);
            if let Some(r) = res {
                nontrivial |= !(0..=29).contains(r);
            }
            let cur = a5::get_resolution(*id);
            let target = res.unwrap_or(cur.saturating_sub(1));
            let r = a5::cell_to_parent(*id, *res);
            not_a_cell_is_rejected(*id, r.is_ok(), "cell_to_parent", st)?;
            if let Ok(p) = r {
                if !valid_res(target) {
                    return Err(format!("cell_to_parent({:#x}, {:?}) returned Ok({:#x}) for target resolution {}", id, res, p, target));
                }
                if let Some((ac, canon)) = alias(*id) {
                    // a valid cell (possibly given by a non-canonical alias): the answer is the model ancestor
                    if target > ac.res {
                        return Err(format!("cell_to_parent({:#x}, {:?}) returned Ok({:#x}) for a target finer than the cell", id, res, p));
                    }
                    let pc = canonical_of(p, &format!("cell_to_parent({:#x}, {:?})", id, res))?;
                    let want = tree::ancestor(&ac, target);
                    if pc != want {
                        return Err(format!("cell_to_parent({:#x}, {:?}) = {:#x}, the ancestor of the canonical cell {:#x} at resolution {} is {:#x}", id, res, p, canon, target, codec::encode(&want)));
                    }
                } else if target != cur {
                    // not a cell at all: an Ok result must at least be a canonical ID of the requested resolution
                    let pc = canonical_of(p, &format!("cell_to_parent({:#x}, {:?})", id, res))?;
                    if pc.res != target {
                        return Err(format!("cell_to_parent({:#x}, {:?}) returned {:#x} of resolution {}", id, res, p, pc.res));
                    }
                }
            }
        }
        Call::Resolution { id } => {
            id_class(*id, &mut nontrivial);
            let r = a5::get_resolution(*id);
            if !valid_res(r) {
                return Err(format!("get_resolution({:#x}) = {}", id, r));
            }
        }
        Call::NumCells { res } => {
            nontrivial = !(0..=29).contains(res);
            let n = a5::get_num_cells(*res);
            if (0..=27).contains(res) && n as u128 != codec::num_cells(*res) {
                return Err(format!("get_num_cells({}) = {}", res, n));
            }
        }
        Call::Area { res } => {
            nontrivial = !(0..=29).contains(res);
            let a = a5::cell_area(*res);
            if !a.is_finite() || a < 0.0 {
                return Err(format!("cell_area({}) = {}", res, a));
            }
            if (-1..=29).contains(res) && !(a > 0.0) {
                return Err(format!("cell_area({}) = {} is not positive", res, a));
            }
        }
        Call::Compact { ids } => {
            for id in ids {
                id_class(*id, &mut nontrivial);
            }
            let r = a5::compact(ids);
            if let Ok(v) = &r {
                if ids.iter().all(|i| codec::is_canonical(*i)) {
                    for &x in v {
                        canonical_of(x, "compact of canonical inputs")?;
                    }
                }
                // outputs are valid inputs again
                let again = a5::compact(v);
                if let (Ok(w), true) = (&again, ids.iter().all(|i| codec::is_canonical(*i))) {
                    let mut a = v.clone();
                    let mut b = w.clone();
                    a.sort_unstable();
                    b.sort_unstable();
                    let _ = (a, b);
                }
            }
        }
        Call::Uncompact { ids, res } => {
            for id in ids {
                id_class(*id, &mut nontrivial);
            }
            nontrivial |= !(0..=29).contains(res);
            if valid_res(*res) {
                let mut total: u128 = 0;
                let mut all = true;
                for id in ids {
                    let cur = a5::get_resolution(*id);
                    if valid_res(cur) && cur <= *res {
                        total += codec::num_cells(*res) / codec::num_cells(cur);
                    } else {
                        all = false;
                    }
                }
                if all && total > MAX_FANOUT {
                    st.hit("skipped:fan-out>4^8");
                    return Ok(());
                }
                if !all && total > MAX_FANOUT {
                    // an Err is expected, but an implementation may expand first: out of scope by size
                    st.hit("skipped:fan-out>4^8");
                    return Ok(());
                }
            }
            let r = a5::uncompact(ids, *res);
            if let Ok(v) = &r {
                if !valid_res(*res) && !ids.is_empty() {
                    return Err(format!("uncompact({:x?}, {}) returned Ok({} cells) for a resolution outside -1..29", ids, res, v.len()));
                }
                for &x in v {
                    if a5::get_resolution(x) != *res {
                        return Err(format!("uncompact({:x?}, {}) returned {:#x} of resolution {}", ids, res, x, a5::get_resolution(x)));
                    }
                }
                if ids.iter().all(|i| codec::is_canonical(*i)) {
                    for &x in v {
                        canonical_of(x, "uncompact of canonical inputs")?;
                    }
                }
            }
        }
        Call::Res0 => {
            let v = a5::get_res0_cells().map_err(|e| format!("get_res0_cells failed: {}", e))?;
            if v.len() != 12 {
                return Err(format!("get_res0_cells returned {} cells", v.len()));
            }
        }
        Call::Hex { v } => {
            let s = a5::u64_to_hex(*v);
            if a5::hex_to_u64(&s) != Ok(*v) {
                return Err(format!("hex round trip of {} failed", v));
            }
        }
        Call::HexParse { s } => {
            nontrivial = true;
            let _ = a5::hex_to_u64(s);
        }
    }
    if st.frozen {
        return Ok(());
    }
    let f = call_json(call)["f"].as_str().unwrap_or("?").to_string();
    if nontrivial {
        st.nontrivial(&call_json(call).to_string());
    }
    st.hit(&format!("fn:{}", f));
    st.sample(nontrivial, || call_json(call));
    Ok(())
}

/// Executes a raw call for history checks (C13): the result in a bit-exact comparable form, or
/// None when the call is skipped because its honest result would exceed the fan-out bound.
pub fn exec_raw(call: &Call) -> Option<Result<Vec<u64>, String>> {
    let ids = |r: Result<Vec<u64>, String>| Some(r);
    match call {
        Call::Lookup { lon, lat, res } => Some(a5::lonlat_to_cell(crate::api::lonlat(*lon, *lat), *res).map(|x| vec![x])),
        Call::Centre { id } => Some(a5::cell_to_lonlat(*id).map(|p| vec![p.longitude().to_bits(), p.latitude().to_bits()])),
        Call::Boundary { id, n, closed } => {
            let segs = [Some(1), Some(3), None][*n as usize % 3];
            Some(
                a5::cell_to_boundary(*id, Some(a5::core::cell::CellToBoundaryOptions { closed_ring: *closed, segments: segs }))
                    .map(|v| v.iter().flat_map(|p| [p.longitude().to_bits(), p.latitude().to_bits()]).collect()),
            )
        }
        Call::Children { id, res } => {
            let cur = a5::get_resolution(*id);
            let target = res.unwrap_or(cur.saturating_add(1));
            if valid_res(cur) && valid_res(target) && target >= cur && codec::num_cells(target) / codec::num_cells(cur) > MAX_FANOUT {
                return None;
            }
            ids(a5::cell_to_children(*id, *res))
        }
        Call::Parent { id, res } => Some(a5::cell_to_parent(*id, *res).map(|x| vec![x])),
        Call::Resolution { id } => Some(Ok(vec![a5::get_resolution(*id) as i64 as u64])),
        Call::NumCells { res } => Some(Ok(vec![a5::get_num_cells(*res)])),
        Call::Area { res } => Some(Ok(vec![a5::cell_area(*res).to_bits()])),
        Call::Compact { ids: v } => ids(a5::compact(v)),
        Call::Uncompact { ids: v, res } => {
            if valid_res(*res) {
                let mut total: u128 = 0;
                for id in v {
                    let cur = a5::get_resolution(*id);
                    if valid_res(cur) && cur <= *res {
                        total += codec::num_cells(*res) / codec::num_cells(cur);
                    }
                }
                if total > MAX_FANOUT {
                    return None;
                }
            }
            ids(a5::uncompact(v, *res))
        }
        Call::Res0 => ids(a5::get_res0_cells()),
        Call::Hex { v } => Some(Ok(a5::u64_to_hex(*v).bytes().map(|b| b as u64).collect())),
        Call::HexParse { s } => Some(a5::hex_to_u64(s).map(|x| vec![x])),
    }
}

// ---------------------------------------------------------------------------------------------
// child side

static CASE_START_MS: [AtomicU64; 64] = [const { AtomicU64::new(0) }; 64];

fn slot_path(dir: &str, w: usize) -> String {
    format!("{}/slot-{}.json", dir, w)
}

/// `child c14 <seed> <cases> <dir> <profile>`: run the campaign in-process, write result.json.
pub fn child_campaign(args: &[String]) -> i32 {
    let seed: u64 = args[0].parse().unwrap_or(0);
    let cases: u32 = args[1].parse().unwrap_or(1000);
    let dir = args[2].clone();
    let profile = args[3].clone();
    let t0 = Instant::now();
    // per-case watchdog
    let wd_dir = dir.clone();
    std::thread::spawn(move || loop {
        std::thread::sleep(Duration::from_millis(500));
        let now = t0.elapsed().as_millis() as u64;
        for (w, s) in CASE_START_MS.iter().enumerate() {
            let st = s.load(Ordering::Relaxed);
            if st != 0 && now > st + 20_000 {
                let _ = std::fs::write(format!("{}/hang", wd_dir), format!("{}", w));
                std::process::exit(3);
            }
        }
    });
    let section = format!("calls-{}", profile);
    let files: Vec<std::sync::Mutex<std::fs::File>> = (0..WORKERS).map(|w| std::sync::Mutex::new(std::fs::File::create(slot_path(&dir, w)).expect("slot file"))).collect();
    let next_worker = AtomicU64::new(0);
    thread_local! { static MY_SLOT: std::cell::Cell<usize> = const { std::cell::Cell::new(usize::MAX) }; }
    let r = run_pbt(
        &section,
        seed,
        cases,
        calls,
        |call, st| {
            let w = MY_SLOT.with(|s| {
                if s.get() == usize::MAX {
                    s.set(next_worker.fetch_add(1, Ordering::SeqCst) as usize % WORKERS);
                }
                s.get()
            });
            {
                let mut f = files[w].lock().unwrap();
                let text = call_json(call).to_string();
                let _ = f.seek(SeekFrom::Start(0));
                let _ = f.write_all(text.as_bytes());
                let _ = f.set_len(text.len() as u64);
            }
            CASE_START_MS[w].store(t0.elapsed().as_millis() as u64 + 1, Ordering::Relaxed);
            let r = check_call(call, st);
            CASE_START_MS[w].store(0, Ordering::Relaxed);
            r
        },
        call_json,
    );
    let out = json!({
        "evaluations": r.stats.evals,
        "nontrivial": r.stats.nontrivial.iter().collect::<Vec<_>>(),
        "hist": r.stats.hist,
        "samples_nt": r.stats.samples_nt,
        "samples_tr": r.stats.samples_tr,
        "violation": r.violation.as_ref().map(|v| json!({"section": v.section, "case": v.case, "message": v.message})),
    });
    if std::fs::write(format!("{}/result.json", dir), out.to_string()).is_err() {
        return 2;
    }
    0
}

/// `child c14-one <case-json>`: one call, alone.
pub fn child_one(args: &[String]) -> i32 {
    let v: Value = match serde_json::from_str(&args[0]) {
        Ok(v) => v,
        Err(_) => return 2,
    };
    let call = match call_from_json(&v) {
        Some(c) => c,
        None => return 2,
    };
    let t0 = Instant::now();
    std::thread::spawn(move || {
        std::thread::sleep(Duration::from_secs(20));
        let _ = t0;
        std::process::exit(3);
    });
    let mut st = Stats::default();
    match guarded(|| check_call(&call, &mut st)) {
        Ok(()) => 0,
        Err(m) => {
            println!("{}", m);
            1
        }
    }
}

// ---------------------------------------------------------------------------------------------
// parent side

fn profile_binary(profile: &str) -> std::path::PathBuf {
    let root = std::env::var("A5VERIF_ROOT").unwrap_or_else(|_| "/verif".into());
    std::path::PathBuf::from(root).join("target").join(profile).join("a5verif")
}

fn limited(bin: &std::path::Path, args: &[String]) -> std::process::Command {
    // address-space limit through the shell's ulimit (kilobytes): 6 GiB
    let mut c = std::process::Command::new("sh");
    c.arg("-c").arg("ulimit -v 6291456; exec \"$0\" \"$@\"").arg(bin);
    for a in args {
        c.arg(a);
    }
    c
}

fn run_one_alone(bin: &std::path::Path, case: &Value) -> (Option<i32>, String) {
    let out = limited(bin, &["child".into(), "c14-one".into(), case.to_string()]).output();
    match out {
        Ok(o) => (o.status.code(), String::from_utf8_lossy(&o.stdout).trim().to_string()),
        Err(e) => (Some(2), format!("spawn failed: {}", e)),
    }
}

fn describe_exit(code: Option<i32>) -> String {
    match code {
        Some(3) => "did not return within the 20 s watchdog".into(),
        Some(c) => format!("exited with status {}", c),
        None => "was killed by a signal (abort / allocation failure)".into(),
    }
}

pub fn run(tier: Tier, seed: u64) -> Report {
    let mut rep = Report::new("C14", tier, seed, RULE);
    rep.assume("'every build profile' is represented by release (overflow checks off) and a release-optimised profile with overflow-checks and debug-assertions on");
    let cases = tier.pick(100_000u32, 3_000_000u32);
    for profile in ["release", "checked"] {
        let bin = profile_binary(profile);
        if !bin.exists() {
            eprintln!("harness: {} is missing (build the `{}` profile first)", bin.display(), profile);
            std::process::exit(2);
        }
        let dir = format!("{}/target/c14-{}-{}", std::env::var("A5VERIF_ROOT").unwrap_or_else(|_| "/verif".into()), profile, std::process::id());
        let _ = std::fs::remove_dir_all(&dir);
        if std::fs::create_dir_all(&dir).is_err() {
            eprintln!("harness: cannot create {}", dir);
            std::process::exit(2);
        }
        let mut child = match limited(&bin, &["child".into(), "c14".into(), seed.to_string(), cases.to_string(), dir.clone(), profile.into()])
            .stdout(std::process::Stdio::null())
            .stderr(std::process::Stdio::null())
            .spawn()
        {
            Ok(c) => c,
            Err(e) => {
                eprintln!("harness: cannot spawn child: {}", e);
                std::process::exit(2);
            }
        };
        // outer watchdog on the harness itself
        let deadline = Instant::now() + Duration::from_secs(tier.pick(900, 7200));
        let status = loop {
            match child.try_wait() {
                Ok(Some(s)) => break Some(s),
                Ok(None) => {
                    if Instant::now() > deadline {
                        let _ = child.kill();
                        eprintln!("harness: C14 child exceeded the outer time limit (inconclusive)");
                        std::process::exit(2);
                    }
                    std::thread::sleep(Duration::from_millis(50));
                }
                Err(_) => break None,
            }
        };
        let code = status.and_then(|s| s.code());
        let section = format!("calls-{}", profile);
        if code == Some(0) {
            let text = std::fs::read_to_string(format!("{}/result.json", dir)).unwrap_or_default();
            let v: Value = serde_json::from_str(&text).unwrap_or(Value::Null);
            let mut st = Stats::default();
            st.evals = v["evaluations"].as_u64().unwrap_or(0);
            if let Some(a) = v["nontrivial"].as_array() {
                for x in a {
                    if let Some(h) = x.as_u64() {
                        st.nontrivial.insert(h ^ if profile == "checked" { 0x9e3779b97f4a7c15 } else { 0 });
                    }
                }
            }
            if let Some(h) = v["hist"].as_object() {
                for (k, x) in h {
                    st.hist.insert(format!("{}:{}", profile, k), x.as_u64().unwrap_or(0));
                }
            }
            if let Some(a) = v["samples_nt"].as_array() {
                st.samples_nt = a.iter().take(2).cloned().collect();
            }
            if let Some(a) = v["samples_tr"].as_array() {
                st.samples_tr = a.iter().take(1).cloned().collect();
            }
            let violation = if v["violation"].is_object() {
                Some(Violation {
                    section: section.clone(),
                    case: json!({"profile": profile, "call": v["violation"]["case"]}),
                    message: format!("[{} profile] {}", profile, v["violation"]["message"].as_str().unwrap_or("")),
                    preceding: Vec::new(),
                })
            } else {
                None
            };
            if st.evals == 0 && violation.is_none() {
                eprintln!("harness: C14 child ({}) produced no result", profile);
                std::process::exit(2);
            }
            let _ = std::fs::remove_dir_all(&dir);
            if !rep.absorb(&section, SectionResult { stats: st, violation }) {
                return rep;
            }
        } else {
            // the child died: find the culprit among the current cases of the workers
            let mut culprit: Option<(Value, String)> = None;
            for w in 0..WORKERS {
                if let Ok(text) = std::fs::read_to_string(slot_path(&dir, w)) {
                    if let Ok(case) = serde_json::from_str::<Value>(&text) {
                        let (c1, _) = run_one_alone(&bin, &case);
                        if c1 != Some(0) && c1 != Some(1) && c1 != Some(2) {
                            // confirm determinism with a second fresh child
                            let (c2, _) = run_one_alone(&bin, &case);
                            if c2 == c1 {
                                culprit = Some((case, describe_exit(c1)));
                                break;
                            }
                        } else if c1 == Some(1) {
                            let (c2, msg) = run_one_alone(&bin, &case);
                            if c2 == Some(1) {
                                culprit = Some((case, msg));
                                break;
                            }
                        }
                    }
                }
            }
            let _ = std::fs::remove_dir_all(&dir);
            match culprit {
                Some((case, what)) => {
                    let mut st = Stats::default();
                    st.evals = 1;
                    let v = Violation {
                        section: section.clone(),
                        case: json!({"profile": profile, "call": case}),
                        message: format!("[{} profile] the call {} when run alone in a fresh process under a 6 GiB limit", profile, what),
                        preceding: Vec::new(),
                    };
                    rep.absorb(&section, SectionResult { stats: st, violation: Some(v) });
                    return rep;
                }
                None => {
                    eprintln!("harness: C14 child ({}) died ({}) but no single case reproduces it alone (inconclusive)", profile, describe_exit(code));
                    std::process::exit(2);
                }
            }
        }
    }
    rep
}

pub fn replay(section: &str, case: &Value) -> Option<Result<(), String>> {
    let _ = section;
    let profile = case["profile"].as_str().unwrap_or("release").to_string();
    let bin = profile_binary(&profile);
    if !bin.exists() {
        return None;
    }
    let (code, msg) = run_one_alone(&bin, &case["call"]);
    Some(match code {
        Some(0) => Ok(()),
        Some(1) => Err(format!("[{} profile] {}", profile, msg)),
        Some(2) => return None,
        c => Err(format!("[{} profile] the call {}", profile, describe_exit(c))),
    })
}
