//! C13 — every call is a pure function of its arguments: no history or thread effects.
//!
//! Histories (decided by PBT): a history is a generated list of public calls. The reference result
//! of a call is its result as the first call in a fresh thread (cold memo tables). The history is
//! then run in one long-lived thread, in three orders, and every result must be bit-for-bit equal
//! to its cold reference. Schedules (stress only): barrier-released threads and fresh-process
//! initialisation races against the same references.

use crate::api;
use crate::engine::*;
use crate::gen;
use crate::oracle::codec;
use proptest::prelude::*;
use serde_json::{json, Value};
use std::sync::{Arc, Barrier};

const RULE: &str = "histories of 1..60 public calls (lookup, centre, boundary, children, parent, compact, uncompact, res0, area/count, \
hex, projection forward/inverse on the thread-local instance, raw calls with malformed arguments incl. stride runs, \
requests that must be refused) with arguments biased to hit every face, all 10 triangles and both reflect states; \
related-argument histories (same cell on another face/quintant, siblings, parent/child, most-significant-digit \
variants, hair-moved points, small-step walks across a face edge). Oracle: each result, bit for bit (f64::to_bits, \
exact vectors, identical Err strings), equals the result of the same call made as the first call of a fresh thread \
(three execution orders) and, in a single-worker section, as the only call of a fresh process. An op is non-trivial \
if a memo slot it needs (read through the hook) was already filled by an earlier call; distinct by (op, order). \
Further sections: degenerate lookups (exact cell corners / edge midpoints) compared across two fresh threads; calls \
made from a thread-local destructor while the thread shuts down; stress: T in {2,4,16} barrier-released threads, \
an 8-thread hammer on cheap calls, fresh-process first-call races (unoptimised build, spin barrier).";

#[derive(Debug, Clone)]
pub enum Op {
    Lookup(gen::PointSpec, i32),
    Centre(gen::CellSpec),
    Boundary(gen::CellSpec, u8, bool),
    Children(gen::CellSpec, u8),
    Parent(gen::CellSpec, u8),
    Compact(Vec<gen::CellSpec>),
    Uncompact(Vec<gen::CellSpec>, u8),
    Res0,
    Area(i32),
    Count(i32),
    Hex(u64),
    Forward(gen::PointSpec, u8),
    Inverse(u8, u8, f64, f64),
    /// any public call with raw (possibly malformed) arguments: the error paths
    Raw(super::c14::Call),
    /// children of a coarse cell at resolution 29: a request every implementation must refuse
    Refused(gen::CellSpec),
    /// lookup at point k of a small-step walk across a face edge (consecutive points a hair apart)
    WalkLookup(u16, f64, f64, Vec<f64>, u8, u8),
}

pub fn op_json(o: &Op) -> Value {
    match o {
        Op::Lookup(p, r) => json!({"op": "lookup", "p": gen::point_json(p), "res": r}),
        Op::Centre(c) => json!({"op": "centre", "c": gen::cellspec_json(c)}),
        Op::Boundary(c, n, cl) => json!({"op": "boundary", "c": gen::cellspec_json(c), "n": n, "closed": cl}),
        Op::Children(c, d) => json!({"op": "children", "c": gen::cellspec_json(c), "d": d}),
        Op::Parent(c, d) => json!({"op": "parent", "c": gen::cellspec_json(c), "d": d}),
        Op::Compact(v) => json!({"op": "compact", "cells": v.iter().map(gen::cellspec_json).collect::<Vec<_>>()}),
        Op::Uncompact(v, d) => json!({"op": "uncompact", "cells": v.iter().map(gen::cellspec_json).collect::<Vec<_>>(), "d": d}),
        Op::Res0 => json!({"op": "res0"}),
        Op::Area(r) => json!({"op": "area", "res": r}),
        Op::Count(r) => json!({"op": "count", "res": r}),
        Op::Hex(v) => json!({"op": "hex", "v": v}),
        Op::Forward(p, f) => json!({"op": "forward", "p": gen::point_json(p), "face": f}),
        Op::Inverse(f, k, rho, off) => json!({"op": "inverse", "face": f, "k": k, "rho": rho, "off": off}),
        Op::Raw(c) => json!({"op": "raw", "call": super::c14::call_json(c)}),
        Op::Refused(c) => json!({"op": "refused", "c": gen::cellspec_json(c)}),
        Op::WalkLookup(edge, t, log_d, steps, k, res) => json!({"op": "walk-lookup", "edge": edge, "t": t, "log_d": log_d, "steps": steps, "k": k, "res": res}),
    }
}

pub fn op_from_json(v: &Value) -> Option<Op> {
    let cells = |v: &Value| -> Option<Vec<gen::CellSpec>> { v.as_array()?.iter().map(gen::cellspec_from_json).collect() };
    Some(match v["op"].as_str()? {
        "lookup" => Op::Lookup(gen::point_from_json(&v["p"])?, v["res"].as_i64()? as i32),
        "centre" => Op::Centre(gen::cellspec_from_json(&v["c"])?),
        "boundary" => Op::Boundary(gen::cellspec_from_json(&v["c"])?, v["n"].as_u64()? as u8, v["closed"].as_bool()?),
        "children" => Op::Children(gen::cellspec_from_json(&v["c"])?, v["d"].as_u64()? as u8),
        "parent" => Op::Parent(gen::cellspec_from_json(&v["c"])?, v["d"].as_u64()? as u8),
        "compact" => Op::Compact(cells(&v["cells"])?),
        "uncompact" => Op::Uncompact(cells(&v["cells"])?, v["d"].as_u64()? as u8),
        "res0" => Op::Res0,
        "area" => Op::Area(v["res"].as_i64()? as i32),
        "count" => Op::Count(v["res"].as_i64()? as i32),
        "hex" => Op::Hex(v["v"].as_u64()?),
        "forward" => Op::Forward(gen::point_from_json(&v["p"])?, v["face"].as_u64()? as u8),
        "inverse" => Op::Inverse(v["face"].as_u64()? as u8, v["k"].as_u64()? as u8, v["rho"].as_f64()?, v["off"].as_f64()?),
        "raw" => Op::Raw(super::c14::call_from_json(&v["call"])?),
        "refused" => Op::Refused(gen::cellspec_from_json(&v["c"])?),
        "walk-lookup" => Op::WalkLookup(
            v["edge"].as_u64()? as u16,
            v["t"].as_f64()?,
            v["log_d"].as_f64()?,
            v["steps"].as_array()?.iter().map(|x| x.as_f64()).collect::<Option<Vec<_>>>()?,
            v["k"].as_u64()? as u8,
            v["res"].as_u64()? as u8,
        ),
        _ => return None,
    })
}

pub fn ops() -> BoxedStrategy<Op> {
    let pt = || gen::point_spec([10, 4, 4, 2, 4, 16, 24, 16, 20]);
    prop_oneof![
        6 => (pt(), 0i32..=29).prop_map(|(p, r)| Op::Lookup(p, r)),
        3 => gen::cell_spec(0, 29).prop_map(Op::Centre),
        3 => (gen::cell_spec(0, 29), 0u8..3, any::<bool>()).prop_map(|(c, n, cl)| Op::Boundary(c, n, cl)),
        1 => (gen::cell_spec(-1, 29), 0u8..4).prop_map(|(c, d)| Op::Children(c, d)),
        1 => (gen::cell_spec(-1, 29), prop_oneof![4 => 0u8..31, 1 => Just(255u8)]).prop_map(|(c, d)| Op::Parent(c, d)),
        1 => proptest::collection::vec(gen::cell_spec(0, 6), 0..12).prop_map(Op::Compact),
        1 => (proptest::collection::vec(gen::cell_spec(0, 29), 0..4), 0u8..4).prop_map(|(v, d)| Op::Uncompact(v, d)),
        1 => Just(Op::Res0),
        1 => (-2i32..=31).prop_map(Op::Area),
        1 => (-2i32..=31).prop_map(Op::Count),
        1 => any::<u64>().prop_map(Op::Hex),
        4 => (pt(), prop_oneof![9 => 0u8..12, 1 => 12u8..26]).prop_map(|(p, f)| Op::Forward(p, f)),
        5 => (prop_oneof![9 => 0u8..12, 1 => 12u8..26], 0u8..10, 0.0f64..0.9, 0.01f64..0.99).prop_map(|(f, k, rho, off)| Op::Inverse(f, k, rho, off)),
        4 => super::c14::calls().prop_map(Op::Raw),
        1 => gen::cell_spec(-1, 7).prop_map(Op::Refused),
    ]
    .boxed()
}

/// Histories whose calls share or nearly share arguments (same cell on another face / quintant,
/// siblings, parent and child, the same point moved by a hair, the same call repeated): the shapes
/// that expose a memo keyed on only part of its arguments.
pub fn related_ops() -> BoxedStrategy<Vec<Op>> {
    let anchors = (proptest::collection::vec(prop_oneof![3 => gen::cell_spec(1, 28), 1 => gen::cell_spec(27, 29)], 3..=3), proptest::collection::vec(gen::point_spec([6, 4, 4, 2, 4, 20, 24, 18, 18]), 2..=2));
    anchors
        .prop_flat_map(|(cells, points)| {
            let one = (0usize..3, 0u8..9, 0u8..7, 0usize..2, 0u8..4, any::<u8>(), 0i32..=29).prop_map(move |(ci, tr, kind, pi, ptr, x, res)| {
                let mut c = cells[ci];
                c.pos_class = 8; // uniform: pos = raw & mask, so related positions can be expressed on raw
                match tr {
                    0 => {}
                    1 => c.face = (c.face + 1 + x % 11) % 12,
                    2 => c.quintant = (c.quintant + 1 + x % 4) % 5,
                    3 => c.raw ^= 1 + (x as u64 % 3),
                    4 => c.raw ^= (1 + (x as u64 % 3)) << (2 * (x as u32 % 6)),
                    8 => {
                        // same position except for one of the most significant digits
                        let levels = (c.res - 1).max(1) as u32;
                        let lvl = levels - 1 - (x as u32 % 3).min(levels - 1);
                        c.raw ^= (1 + (x as u64 >> 2) % 3) << (2 * lvl);
                    }
                    5 => {
                        c.res -= 1;
                        c.raw >>= 2;
                    }
                    6 => {
                        c.res += 1;
                        c.raw = (c.raw << 2) | (x as u64 & 3);
                    }
                    _ => {
                        c.face = (c.face + 1 + x % 11) % 12;
                        c.quintant = (c.quintant + x % 5) % 5;
                    }
                }
                c.res = c.res.clamp(0, 29);
                let mut p = points[pi];
                match ptr {
                    0 => {}
                    1 => p.u2 = (p.u2 + 1e-9 * (1.0 + x as f64)).min(0.999_999),
                    2 => p.u3 = (p.u3 + 1e-7 * (1.0 + x as f64)).min(0.999_999),
                    _ => p.u1 = (p.u1 + 1e-6 * (1.0 + x as f64)).min(0.999_999),
                }
                match kind {
                    0 => Op::Centre(c),
                    1 => Op::Boundary(c, x % 3, x & 8 != 0),
                    2 => Op::Parent(c, if x % 5 == 0 { 255 } else { x % 6 }),
                    3 => Op::Children(c, x % 3),
                    4 => Op::Lookup(p, if x & 1 == 0 { c.res } else { res }),
                    5 => Op::Forward(p, c.face),
                    _ => Op::Lookup(p, res),
                }
            });
            let with_errors = prop_oneof![
                6 => one.clone(),
                1 => super::c14::calls().prop_map(Op::Raw),
                1 => gen::cell_spec(-1, 7).prop_map(Op::Refused),
            ];
            proptest::collection::vec(with_errors, 2..40)
        })
        .boxed()
}

/// A history that walks across a face edge in small steps, looking every point up in order.
pub fn walk_history() -> BoxedStrategy<Vec<Op>> {
    (any::<u16>(), 0.0f64..1.0, -10.0f64..-2.5, proptest::collection::vec(0.2f64..0.98, 2..12), prop_oneof![3 => 0u8..2, 1 => 2u8..30])
        .prop_map(|(edge, t, log_d, steps, res)| (0..=steps.len() as u8).map(|k| Op::WalkLookup(edge, t, log_d, steps.clone(), k, res)).collect())
        .boxed()
}

/// Result of an op in a comparable, bit-exact form.
#[derive(Debug, Clone, PartialEq)]
pub enum Out {
    Bits(Vec<u64>),
    Err(String),
}

pub fn exec(op: &Op) -> Out {
    let ids = |r: Result<Vec<u64>, String>| match r {
        Ok(v) => Out::Bits(v),
        Err(e) => Out::Err(e),
    };
    match op {
        Op::Lookup(p, r) => {
            let g = p.point();
            match a5::lonlat_to_cell(api::lonlat(g.lon, g.lat), *r) {
                Ok(id) => Out::Bits(vec![id]),
                Err(e) => Out::Err(e),
            }
        }
        Op::Centre(c) => match a5::cell_to_lonlat(codec::encode(&c.cell())) {
            Ok(p) => Out::Bits(vec![p.longitude().to_bits(), p.latitude().to_bits()]),
            Err(e) => Out::Err(e),
        },
        Op::Boundary(c, n, cl) => {
            let segs = [Some(1), Some(4), None][*n as usize % 3];
            match a5::cell_to_boundary(codec::encode(&c.cell()), Some(a5::core::cell::CellToBoundaryOptions { closed_ring: *cl, segments: segs })) {
                Ok(v) => Out::Bits(v.iter().flat_map(|p| [p.longitude().to_bits(), p.latitude().to_bits()]).collect()),
                Err(e) => Out::Err(e),
            }
        }
        Op::Children(c, d) => {
            let cell = c.cell();
            ids(a5::cell_to_children(codec::encode(&cell), Some((cell.res + *d as i32).min(crate::props::c07::max_target(&cell)))))
        }
        Op::Parent(c, d) => {
            let cell = c.cell();
            let target = if *d == 255 { None } else { Some((cell.res - *d as i32).max(-1)) };
            match a5::cell_to_parent(codec::encode(&cell), target) {
                Ok(id) => Out::Bits(vec![id]),
                Err(e) => Out::Err(e),
            }
        }
        Op::Compact(v) => ids(a5::compact(&v.iter().map(|c| codec::encode(&c.cell())).collect::<Vec<_>>())),
        Op::Uncompact(v, d) => {
            let cells: Vec<_> = v.iter().map(|c| c.cell()).collect();
            let finest = cells.iter().map(|c| c.res).max().unwrap_or(0);
            ids(a5::uncompact(&cells.iter().map(codec::encode).collect::<Vec<_>>(), (finest + *d as i32 - 1).clamp(-1, 29).min(cells.iter().map(|c| c.res).min().unwrap_or(0) + 6)))
        }
        Op::Res0 => ids(a5::get_res0_cells()),
        Op::Area(r) => Out::Bits(vec![a5::cell_area(*r).to_bits()]),
        Op::Count(r) => Out::Bits(vec![a5::get_num_cells(*r)]),
        Op::Hex(v) => {
            let s = a5::u64_to_hex(*v);
            match a5::hex_to_u64(&s) {
                Ok(x) => Out::Bits(s.bytes().map(|b| b as u64).chain([x]).collect()),
                Err(e) => Out::Err(e),
            }
        }
        Op::Forward(p, f) => match api::forward(p.point().vec(), *f) {
            Ok(q) => Out::Bits(vec![q[0].to_bits(), q[1].to_bits()]),
            Err(e) => Out::Err(e),
        },
        Op::Raw(c) => match super::c14::exec_raw(c) {
            None => Out::Err("(skipped: fan-out beyond the bound)".into()),
            Some(Ok(v)) => Out::Bits(v),
            Some(Err(e)) => Out::Err(e),
        },
        Op::Refused(c) => ids(a5::cell_to_children(codec::encode(&c.cell()), Some(29))),
        Op::WalkLookup(edge, t, log_d, steps, k, res) => {
            let w = super::c18::SeamWalk { edge: *edge, t: *t, log_d: *log_d, steps: steps.clone(), res: 0 };
            let pts = super::c18::seam_walk_points(&w);
            let v = pts[(*k as usize) % pts.len()];
            let (lon, lat) = crate::oracle::geo::lonlat_of_vec(v);
            match a5::lonlat_to_cell(api::lonlat(lon, lat.clamp(-90.0, 90.0)), *res as i32 % 30) {
                Ok(id) => Out::Bits(vec![id]),
                Err(e) => Out::Err(e),
            }
        }
        Op::Inverse(f, k, rho, off) => {
            let g = std::f64::consts::PI / 5.0 * (*k as f64 + off);
            match api::inverse([rho * g.cos(), rho * g.sin()], *f) {
                Ok(v) => Out::Bits(vec![v[0].to_bits(), v[1].to_bits(), v[2].to_bits()]),
                Err(e) => Out::Err(e),
            }
        }
    }
}

fn memo_bits() -> Vec<bool> {
    let d = a5::projections::dodecahedron::DodecahedronProjection::get_thread_local();
    let (a, b) = d.verif_memo_slots();
    a.into_iter().chain(b).collect()
}

/// Result of `op` as the first call in a fresh thread, and the memo slots it filled.
pub fn cold(op: &Op) -> (Out, Vec<bool>) {
    let op = op.clone();
    std::thread::Builder::new()
        .stack_size(16 << 20)
        .spawn(move || {
            let o = guarded(|| Ok(exec(&op))).unwrap_or_else(Out::Err);
            (o, memo_bits())
        })
        .unwrap()
        .join()
        .expect("cold thread")
}

fn describe(o: &Out) -> String {
    match o {
        Out::Bits(v) => {
            let s: Vec<String> = v.iter().take(6).map(|x| format!("{:x}", x)).collect();
            format!("Ok[{} words: {}{}]", v.len(), s.join(","), if v.len() > 6 { ",…" } else { "" })
        }
        Out::Err(e) => format!("Err({})", e),
    }
}

#[derive(Debug, Clone)]
pub struct History {
    pub ops: Vec<Op>,
    pub perm_seed: u64,
}

fn history_json(h: &History) -> Value {
    json!({"ops": h.ops.iter().map(op_json).collect::<Vec<_>>(), "perm_seed": h.perm_seed})
}
fn history_from_json(v: &Value) -> Option<History> {
    Some(History { ops: v["ops"].as_array()?.iter().map(op_from_json).collect::<Option<Vec<_>>>()?, perm_seed: v["perm_seed"].as_u64()? })
}

/// Run ops in the given order in one fresh long-lived thread; compare each with its cold reference.
fn run_order(ops: &[Op], order: &[usize], refs: &[(Out, Vec<bool>)], label: &str) -> Result<Vec<(usize, bool)>, String> {
    let ops_v: Vec<Op> = ops.to_vec();
    let order_v: Vec<usize> = order.to_vec();
    let refs_v: Vec<(Out, Vec<bool>)> = refs.to_vec();
    let label = label.to_string();
    std::thread::Builder::new()
        .stack_size(16 << 20)
        .spawn(move || -> Result<Vec<(usize, bool)>, String> {
            let mut warm_hits = Vec::new();
            for (step, &i) in order_v.iter().enumerate() {
                let before = memo_bits();
                let got = guarded(|| Ok(exec(&ops_v[i]))).unwrap_or_else(Out::Err);
                if got != refs_v[i].0 {
                    return Err(format!(
                        "history effect: call #{} of the history ({}), executed as step {} of the {} order, returned {} but {} as the first call of a fresh thread",
                        i, op_json(&ops_v[i]), step, label, describe(&got), describe(&refs_v[i].0)
                    ));
                }
                let warm = before.iter().zip(refs_v[i].1.iter()).any(|(b, need)| *b && *need);
                warm_hits.push((i, warm));
            }
            Ok(warm_hits)
        })
        .unwrap()
        .join()
        .map_err(|_| "history thread panicked".to_string())?
}

fn check_history(h: &History, st: &mut Stats) -> Result<(), String> {
    let n = h.ops.len();
    let refs: Vec<(Out, Vec<bool>)> = h.ops.iter().map(cold).collect();
    let fwd: Vec<usize> = (0..n).collect();
    let rev: Vec<usize> = (0..n).rev().collect();
    let mut perm: Vec<usize> = (0..n).collect();
    let mut x = h.perm_seed | 1;
    for i in (1..n).rev() {
        x = x.wrapping_mul(6364136223846793005).wrapping_add(1442695040888963407);
        perm.swap(i, ((x >> 33) % (i as u64 + 1)) as usize);
    }
    for (label, order) in [("generated", &fwd), ("reversed", &rev), ("permuted", &perm)] {
        let hits = run_order(&h.ops, order, &refs, label)?;
        for (i, warm) in hits {
            st.eval();
            if warm {
                st.nontrivial(&(op_json(&h.ops[i]).to_string(), label));
                st.hit("op-ran-with-a-needed-slot-already-filled");
            }
        }
    }
    for (i, (_, slots)) in refs.iter().enumerate() {
        for (s, filled) in slots.iter().enumerate() {
            if *filled {
                st.hit(&format!("slot-cold:{:03}", s));
            }
        }
        st.hit(&format!("op:{}", op_json(&h.ops[i])["op"].as_str().unwrap_or("?")));
    }
    st.sample(n >= 2, || json!({"history_length": n, "first_ops": h.ops.iter().take(4).map(op_json).collect::<Vec<_>>()}));
    Ok(())
}

/// Concurrent stress: T threads released by a barrier, each running its own history.
fn check_concurrent(hs: &[History], st: &mut Stats) -> Result<(), String> {
    let refs: Vec<Vec<Out>> = hs.iter().map(|h| h.ops.iter().map(|o| cold(o).0).collect()).collect();
    let barrier = Arc::new(Barrier::new(hs.len()));
    let results: Vec<Result<(), String>> = std::thread::scope(|sc| {
        let handles: Vec<_> = hs
            .iter()
            .enumerate()
            .map(|(t, h)| {
                let b = barrier.clone();
                let r = &refs[t];
                std::thread::Builder::new()
                    .stack_size(16 << 20)
                    .spawn_scoped(sc, move || -> Result<(), String> {
                        b.wait();
                        for (i, op) in h.ops.iter().enumerate() {
                            let got = guarded(|| Ok(exec(op))).unwrap_or_else(Out::Err);
                            if got != r[i] {
                                return Err(format!(
                                    "thread effect: with {} threads running concurrently, thread {} call #{} ({}) returned {} but {} alone in a fresh thread",
                                    hs.len(), t, i, op_json(op), describe(&got), describe(&r[i])
                                ));
                            }
                        }
                        Ok(())
                    })
                    .unwrap()
            })
            .collect();
        handles.into_iter().map(|h| h.join().unwrap_or_else(|_| Err("thread panicked".into()))).collect()
    });
    for r in results {
        r?;
    }
    st.add("concurrent-ops", hs.iter().map(|h| h.ops.len() as u64).sum());
    st.hit(&format!("barrier-run:threads={}", hs.len()));
    st.nontrivial(&hs.iter().map(|h| history_json(h).to_string()).collect::<Vec<_>>());
    Ok(())
}

/// Degenerate lookup inputs: the exact reported corners and edge midpoints of cells, where several
/// candidate cells tie. A batch is executed in two fresh threads (whose per-thread hasher seeds,
/// allocation history etc. differ) and the results must be identical; no per-call thread spawn, so
/// many inputs per second.
fn check_cross_thread_batch(cells: &[(gen::CellSpec, u8)], st: &mut Stats) -> Result<(), String> {
    let mut inputs: Vec<(f64, f64, i32)> = Vec::new();
    for (spec, dr) in cells {
        let c = spec.cell();
        let id = codec::encode(&c);
        if let Ok(b) = api::boundary_lonlat(id, Some(2), false) {
            for p in b {
                // at the cell's own resolution and one or two finer/coarser (corners of coarse cells are
                // corners of fine cells too)
                let r = (c.res + (*dr as i32 % 3) - 1).clamp(0, 29);
                inputs.push((p.0, p.1.clamp(-90.0, 90.0), r));
                inputs.push((p.0, p.1.clamp(-90.0, 90.0), c.res));
            }
        }
    }
    let run = |inputs: &Vec<(f64, f64, i32)>, warm: usize| -> Vec<Result<u64, String>> {
        // `warm` throw-away hash maps advance the thread's hasher seed differently in the two threads
        let mut junk = Vec::new();
        for i in 0..warm {
            let mut m = std::collections::HashMap::new();
            m.insert(i, i);
            junk.push(m);
        }
        inputs.iter().map(|(lo, la, r)| a5::lonlat_to_cell(api::lonlat(*lo, *la), *r)).collect()
    };
    let (a, b) = std::thread::scope(|sc| {
        let ia = &inputs;
        let ha = sc.spawn(move || run(ia, 0));
        let hb = sc.spawn(move || run(ia, 7));
        (ha.join().unwrap(), hb.join().unwrap())
    });
    for (i, (x, y)) in a.iter().zip(b.iter()).enumerate() {
        if x != y {
            return Err(format!(
                "thread effect: lonlat_to_cell(({}, {}), {}) returned {:x?} in one fresh thread and {:x?} in another (the point is an exact corner / edge midpoint of a cell)",
                inputs[i].0, inputs[i].1, inputs[i].2, x, y
            ));
        }
        st.eval();
    }
    st.nontrivial(&inputs.iter().map(|p| (p.0.to_bits(), p.1.to_bits(), p.2)).collect::<Vec<_>>());
    st.add("degenerate-lookups-compared-across-threads", inputs.len() as u64);
    Ok(())
}

thread_local! {
    static EXIT_HOOK: std::cell::RefCell<Option<ExitHook>> = const { std::cell::RefCell::new(None) };
}

struct ExitHook {
    ops: Vec<Op>,
    tx: std::sync::mpsc::Sender<Vec<Out>>,
}

impl Drop for ExitHook {
    fn drop(&mut self) {
        // runs while the thread is shutting down, after thread-locals registered later were destroyed
        let outs: Vec<Out> = self.ops.iter().map(|o| guarded(|| Ok(exec(o))).unwrap_or_else(Out::Err)).collect();
        let _ = self.tx.send(outs);
    }
}

/// Calls made while a thread shuts down (from the destructor of a thread-local that was registered
/// before the library was first used on that thread) must give the same results as anywhere else.
fn check_exit_hook(h: &History, st: &mut Stats) -> Result<(), String> {
    let refs: Vec<Out> = h.ops.iter().map(|o| cold(o).0).collect();
    let (tx, rx) = std::sync::mpsc::channel();
    let ops = h.ops.clone();
    std::thread::Builder::new()
        .stack_size(16 << 20)
        .spawn(move || {
            // 1. register the hook first, 2. then use the library, 3. exit
            EXIT_HOOK.with(|hk| *hk.borrow_mut() = Some(ExitHook { ops: ops.clone(), tx }));
            for o in &ops {
                let _ = guarded(|| Ok(exec(o)));
            }
        })
        .unwrap()
        .join()
        .map_err(|_| "exit-hook thread panicked".to_string())?;
    let got = rx.recv_timeout(std::time::Duration::from_secs(30)).map_err(|_| "calls made during thread shutdown never completed".to_string())?;
    for (i, (g, r)) in got.iter().zip(refs.iter()).enumerate() {
        if g != r {
            return Err(format!(
                "history effect: call #{} ({}) made while its thread was shutting down returned {} but {} as the first call of a fresh thread",
                i, op_json(&h.ops[i]), describe(g), describe(r)
            ));
        }
        st.eval();
    }
    st.hit("exit-hook-histories");
    st.nontrivial(&("exit-hook", history_json(h).to_string()));
    Ok(())
}

/// Hammer: T threads repeat the same few cheap calls many times in different orders; every result
/// is compared with its reference. Exposes unsynchronised shared state with windows of nanoseconds.
fn check_hammer(h: &History, st: &mut Stats) -> Result<(), String> {
    let ops: Vec<Op> = h.ops.iter().filter(|o| matches!(o, Op::Parent(..) | Op::Children(..) | Op::Raw(..) | Op::Hex(..) | Op::Count(..) | Op::Area(..) | Op::Compact(..) | Op::Res0)).cloned().collect();
    if ops.len() < 2 {
        return Ok(());
    }
    let refs: Vec<Out> = ops.iter().map(|o| cold(o).0).collect();
    let threads = 8;
    let rounds = 400;
    let gate = std::sync::atomic::AtomicUsize::new(0);
    let results: Vec<Result<(), String>> = std::thread::scope(|sc| {
        let hs: Vec<_> = (0..threads)
            .map(|t| {
                let (ops, refs, gate) = (&ops, &refs, &gate);
                sc.spawn(move || -> Result<(), String> {
                    gate.fetch_add(1, std::sync::atomic::Ordering::SeqCst);
                    while gate.load(std::sync::atomic::Ordering::SeqCst) < threads {
                        std::hint::spin_loop();
                    }
                    let n = ops.len();
                    for r in 0..rounds {
                        let i = (r * (2 * t + 1) + t) % n;
                        let got = guarded(|| Ok(exec(&ops[i]))).unwrap_or_else(Out::Err);
                        if got != refs[i] {
                            return Err(format!(
                                "thread effect: with {} threads repeating the same calls, {} returned {} in thread {} (round {}) but {} alone in a fresh thread",
                                threads, op_json(&ops[i]), describe(&got), t, r, describe(&refs[i])
                            ));
                        }
                    }
                    Ok(())
                })
            })
            .collect();
        hs.into_iter().map(|h| h.join().unwrap_or_else(|_| Err("hammer thread panicked".into()))).collect()
    });
    for r in results {
        r?;
    }
    st.add("hammer-calls", (threads * rounds) as u64);
    st.nontrivial(&("hammer", history_json(h).to_string()));
    Ok(())
}

/// Deterministic op list for the fresh-process race (same in parent and child).
fn race_ops(seed: u64, thread: usize) -> Vec<Op> {
    let mut x = mix_seed(seed, "c13-race", thread) | 1;
    let mut next = || {
        x = x.wrapping_mul(6364136223846793005).wrapping_add(1442695040888963407);
        x >> 11
    };
    let mut v = Vec::new();
    // the very first call of each thread is a cheap decode-type call on a deep cell (the first use of
    // every lazily built table then falls into the same few hundred nanoseconds on all threads)
    {
        let u = |n: u64| (n % 1_000_000) as f64 / 1_000_000.0;
        let _ = u;
        let c = gen::CellSpec { res: 2 + (next() % 28) as i32, face: (next() % 12) as u8, quintant: (next() % 5) as u8, pos_class: 8, raw: next(), k: 0 };
        v.push(match next() % 3 {
            0 => Op::Parent(c, 1 + (next() % 2) as u8),
            1 => Op::Children(c, 1),
            _ => Op::Centre(c),
        });
    }
    for _ in 0..6 {
        let k = next() % 5;
        let u = |n: u64| (n % 1_000_000) as f64 / 1_000_000.0;
        let p = gen::PointSpec { class: (next() % 9) as u8, idx: next() as u16, u1: u(next()), u2: u(next()), u3: u(next()) };
        let c = gen::CellSpec { res: (next() % 30) as i32, face: (next() % 12) as u8, quintant: (next() % 5) as u8, pos_class: (next() % 9) as u8, raw: next(), k: (next() % 32) as u8 };
        v.push(match k {
            0 => Op::Lookup(p, (next() % 30) as i32),
            1 => Op::Centre(c),
            2 => Op::Boundary(c, (next() % 3) as u8, true),
            3 => Op::Forward(p, (next() % 12) as u8),
            _ => Op::Inverse((next() % 12) as u8, (next() % 10) as u8, 0.7 * u(next()), 0.01 + 0.98 * u(next())),
        });
    }
    v
}

/// `child c13-op <op-json>`: execute one op as the only library call of a fresh process.
pub fn child_op(args: &[String]) -> i32 {
    let v: Value = match serde_json::from_str(&args[0]) {
        Ok(v) => v,
        Err(_) => return 2,
    };
    let op = match op_from_json(&v) {
        Some(o) => o,
        None => return 2,
    };
    match guarded(|| Ok(exec(&op))).unwrap_or_else(Out::Err) {
        Out::Bits(b) => println!("{}", json!({"ok": b})),
        Out::Err(e) => println!("{}", json!({"err": e})),
    }
    0
}

/// Result of `op` as the only library call of a fresh process (nothing process-wide is warm).
fn process_cold(op: &Op) -> Result<Out, String> {
    let exe = std::env::current_exe().map_err(|e| format!("HARNESS: {}", e))?;
    let out = std::process::Command::new(exe)
        .args(["child", "c13-op", &op_json(op).to_string()])
        .output()
        .map_err(|e| format!("HARNESS: {}", e))?;
    if !out.status.success() {
        return Err(format!("HARNESS: child for {} ended with {:?}", op_json(op), out.status));
    }
    let v: Value = serde_json::from_slice(&out.stdout).map_err(|e| format!("HARNESS: bad child output: {}", e))?;
    if let Some(a) = v["ok"].as_array() {
        Ok(Out::Bits(a.iter().map(|x| x.as_u64().unwrap_or(0)).collect()))
    } else {
        Ok(Out::Err(v["err"].as_str().unwrap_or("").to_string()))
    }
}

/// History against fresh-*process* references: catches state shared by all threads of a process
/// (statics), which a fresh-thread reference inherits.
fn check_history_process_cold(h: &History, st: &mut Stats) -> Result<(), String> {
    let refs: Vec<Out> = h.ops.iter().map(process_cold).collect::<Result<_, _>>()?;
    let ops = h.ops.clone();
    let refs2 = refs.clone();
    let r = std::thread::Builder::new()
        .stack_size(16 << 20)
        .spawn(move || -> Result<(), String> {
            for (i, op) in ops.iter().enumerate() {
                let got = guarded(|| Ok(exec(op))).unwrap_or_else(Out::Err);
                if got != refs2[i] {
                    return Err(format!(
                        "process-history effect: call #{} of the history ({}) returned {} inside this long-lived process but {} as the only call of a fresh process",
                        i, op_json(op), describe(&got), describe(&refs2[i])
                    ));
                }
            }
            Ok(())
        })
        .unwrap()
        .join()
        .map_err(|_| "history thread panicked".to_string())?;
    r?;
    for op in &h.ops {
        st.eval();
        st.nontrivial(&("process-cold", op_json(op).to_string()));
    }
    st.hit("history-checked-against-fresh-process-references");
    Ok(())
}

fn out_hash(o: &Out) -> u64 {
    match o {
        Out::Bits(v) => fingerprint(&(0u8, v)),
        Out::Err(e) => fingerprint(&(1u8, e)),
    }
}

/// `child c13-race <seed>`: 16 threads make their first-ever library call simultaneously.
pub fn child_race(args: &[String]) -> i32 {
    let seed: u64 = args[0].parse().unwrap_or(0);
    let t = 16;
    // odd seeds: the main thread has already used the library once (encode side only), so that the
    // racing threads find some tables built and others not
    if seed % 2 == 1 {
        let _ = a5::lonlat_to_cell(api::lonlat(12.5, 41.9), 5);
    }
    // spin barrier: all threads leave within nanoseconds of each other
    let gate = Arc::new(std::sync::atomic::AtomicUsize::new(0));
    let hs: Vec<_> = (0..t)
        .map(|i| {
            let b = gate.clone();
            std::thread::spawn(move || {
                let ops = race_ops(seed, i);
                b.fetch_add(1, std::sync::atomic::Ordering::SeqCst);
                while b.load(std::sync::atomic::Ordering::SeqCst) < t {
                    std::hint::spin_loop();
                }
                ops.iter().map(|o| out_hash(&guarded(|| Ok(exec(o))).unwrap_or_else(Out::Err))).collect::<Vec<u64>>()
            })
        })
        .collect();
    for (i, h) in hs.into_iter().enumerate() {
        match h.join() {
            Ok(v) => println!("{} {}", i, v.iter().map(|x| format!("{:x}", x)).collect::<Vec<_>>().join(" ")),
            Err(_) => return 1,
        }
    }
    0
}

fn check_race(seed: u64, st: &mut Stats) -> Result<(), String> {
    // the race children run the unoptimised `racy` build when it exists: slow code widens race windows
    let root = std::env::var("A5VERIF_ROOT").unwrap_or_else(|_| "/verif".into());
    let racy = std::path::PathBuf::from(root).join("target/racy/a5verif");
    let exe = if racy.exists() { racy } else { std::env::current_exe().map_err(|e| format!("HARNESS: {}", e))? };
    let out = std::process::Command::new(exe).args(["child", "c13-race", &seed.to_string()]).output().map_err(|e| format!("HARNESS: {}", e))?;
    if !out.status.success() {
        return Err(format!("fresh-process race (seed {}): the process with 16 threads making their first calls simultaneously died: {:?}", seed, out.status));
    }
    let text = String::from_utf8_lossy(&out.stdout);
    for line in text.lines() {
        let mut it = line.split_whitespace();
        let t: usize = it.next().and_then(|x| x.parse().ok()).ok_or("HARNESS: bad child output")?;
        let got: Vec<u64> = it.map(|x| u64::from_str_radix(x, 16).unwrap_or(0)).collect();
        let ops = race_ops(seed, t);
        for (i, op) in ops.iter().enumerate() {
            let want = out_hash(&cold(op).0);
            if got.get(i) != Some(&want) {
                return Err(format!(
                    "fresh-process race (seed {}): thread {} call #{} ({}) differs from its result alone in a fresh thread",
                    seed, t, i, op_json(op)
                ));
            }
            st.eval();
        }
    }
    st.hit("fresh-process-race-runs");
    st.nontrivial(&("race", seed));
    Ok(())
}

/// The thorough tier runs as a series of quick-sized batches, each in its own child process: every
/// thread that touches the library keeps about 23 KB allocated for the life of the process (the
/// per-thread projection instance is leaked by design), and the cold references spawn a thread
/// per call, so one long process would need tens of gigabytes.
const THOROUGH_BATCHES: u64 = 32;

pub fn run(tier: Tier, seed: u64) -> Report {
    if tier == Tier::Quick || std::env::var("A5VERIF_C13_BATCH").is_ok() {
        return run_batch(tier, seed);
    }
    let mut rep = Report::new("C13", tier, seed, RULE);
    rep.assume("the interleaving dimension is stress exploration under the OS scheduler (barrier-released threads, hammer, fresh-process first-call races), not schedule enumeration");
    let exe = match std::env::current_exe() {
        Ok(e) => e,
        Err(e) => {
            eprintln!("harness: {}", e);
            std::process::exit(2);
        }
    };
    for b in 0..THOROUGH_BATCHES {
        let bseed = mix_seed(seed, "c13-batch", b as usize);
        let out = std::process::Command::new(&exe)
            .args(["child", "c13-batch", &bseed.to_string()])
            .env("A5VERIF_C13_BATCH", "1")
            .output();
        let out = match out {
            Ok(o) if o.status.success() => o,
            other => {
                eprintln!("harness: C13 batch {} failed to run: {:?}", b, other.map(|o| o.status));
                std::process::exit(2);
            }
        };
        let v: Value = match serde_json::from_slice(&out.stdout) {
            Ok(v) => v,
            Err(e) => {
                eprintln!("harness: C13 batch {} produced unreadable output: {}", b, e);
                std::process::exit(2);
            }
        };
        absorb_child_report(&mut rep, &v, bseed);
        if rep.violation.is_some() {
            break;
        }
    }
    rep.extra.insert("thorough_batches_in_child_processes".into(), json!(THOROUGH_BATCHES));
    rep
}

/// `child c13-batch <seed>`: one quick-sized batch, report as JSON on stdout.
pub fn child_batch(args: &[String]) -> i32 {
    let seed: u64 = args[0].parse().unwrap_or(0);
    let rep = run_batch(Tier::Quick, seed);
    println!("{}", report_to_json(&rep));
    0
}

fn run_batch(tier: Tier, seed: u64) -> Report {
    let tier = if std::env::var("A5VERIF_C13_BATCH").is_ok() { Tier::Quick } else { tier };
    let mut rep = Report::new("C13", tier, seed, RULE);
    rep.assume("the interleaving dimension is stress exploration under the OS scheduler (barrier-released threads, fresh-process first-call races), not schedule enumeration");
    let only = std::env::var("A5VERIF_C13_ONLY").unwrap_or_default();
    let skip = |name: &str| !only.is_empty() && only != name;
    let r = if skip("histories") { SectionResult { stats: Stats::default(), violation: None } } else { run_pbt(
        "histories",
        seed,
        tier.pick(150, 5_000),
        || (proptest::collection::vec(ops(), 1..60), any::<u64>()).prop_map(|(ops, perm_seed)| History { ops, perm_seed }).boxed(),
        check_history,
        history_json,
    ) };
    if !rep.absorb("histories", r) {
        return rep;
    }
    let r = if skip("related-histories") { SectionResult { stats: Stats::default(), violation: None } } else { run_pbt(
        "related-histories",
        seed,
        tier.pick(150, 5_000),
        || (prop_oneof![4 => related_ops(), 1 => walk_history()], any::<u64>()).prop_map(|(ops, perm_seed)| History { ops, perm_seed }).boxed(),
        check_history,
        history_json,
    ) };
    if !rep.absorb("related-histories", r) {
        return rep;
    }
    // fresh-process references, single worker (so that this process's own state evolves only through
    // this worker's sequence of histories and a failure is reproducible from the preceding cases)
    let r = run_pbt_workers(
        "process-cold-histories",
        seed,
        tier.pick(120, 3_000),
        1,
        || {
            (prop_oneof![proptest::collection::vec(ops(), 1..10), related_ops().prop_map(|mut v| { v.truncate(10); v })], any::<u64>())
                .prop_map(|(ops, perm_seed)| History { ops, perm_seed })
                .boxed()
        },
        check_history_process_cold,
        history_json,
    );
    if let Some(v) = &r.violation {
        if v.message.starts_with("HARNESS:") {
            eprintln!("harness: {}", v.message);
            std::process::exit(2);
        }
    }
    if !rep.absorb("process-cold-histories", r) {
        return rep;
    }
    let cold_slots = rep.stats.hist.keys().filter(|k| k.starts_with("slot-cold:")).count();
    rep.extra.insert("memo_slots_exercised_of_270".into(), json!(cold_slots));
    rep.stats.hist.retain(|k, _| !k.starts_with("slot-cold:"));
    // barrier stress: one worker at a time owns all its threads
    let r = run_pbt_workers(
        "barrier-threads",
        seed,
        tier.pick(20, 500),
        1,
        || {
            (prop::sample::select(vec![2usize, 4, 16]))
                .prop_flat_map(|t| proptest::collection::vec((proptest::collection::vec(ops(), 1..25), any::<u64>()).prop_map(|(ops, perm_seed)| History { ops, perm_seed }), t..=t))
                .boxed()
        },
        |hs, st| check_concurrent(hs, st),
        |hs| json!(hs.iter().map(history_json).collect::<Vec<_>>()),
    );
    if !rep.absorb("barrier-threads", r) {
        return rep;
    }
    // degenerate inputs across two fresh threads
    let r = run_pbt(
        "cross-thread-determinism",
        seed,
        tier.pick(300, 10_000),
        || proptest::collection::vec((gen::cell_spec(2, 29), 0u8..3), 4..8).boxed(),
        |cells, st| check_cross_thread_batch(cells, st),
        |cells| json!(cells.iter().map(|(c, d)| json!([gen::cellspec_json(c), d])).collect::<Vec<_>>()),
    );
    if !rep.absorb("cross-thread-determinism", r) {
        return rep;
    }
    // calls made while a thread shuts down
    let r = run_pbt_workers(
        "thread-exit-hook",
        seed,
        tier.pick(60, 2_000),
        4,
        || (proptest::collection::vec(ops(), 1..8), any::<u64>()).prop_map(|(ops, perm_seed)| History { ops, perm_seed }).boxed(),
        check_exit_hook,
        history_json,
    );
    if !rep.absorb("thread-exit-hook", r) {
        return rep;
    }
    // hammer
    let r = run_pbt_workers(
        "hammer",
        seed,
        tier.pick(40, 1_000),
        1,
        || {
            (proptest::collection::vec(prop_oneof![
                3 => (gen::cell_spec(2, 29), prop_oneof![1 => Just(255u8), 3 => 1u8..6]).prop_map(|(c, d)| Op::Parent(c, d)),
                1 => (gen::cell_spec(0, 28), 0u8..2).prop_map(|(c, d)| Op::Children(c, d)),
                1 => proptest::collection::vec(gen::cell_spec(0, 6), 0..8).prop_map(Op::Compact),
                1 => any::<u64>().prop_map(Op::Hex),
            ], 3..10), any::<u64>())
                .prop_map(|(ops, perm_seed)| History { ops, perm_seed })
                .boxed()
        },
        check_hammer,
        history_json,
    );
    if !rep.absorb("hammer", r) {
        return rep;
    }
    let k = tier.pick(48u64, 1000u64);
    let r = run_exhaustive("fresh-process-races", k, |i, st| check_race(mix_seed(seed, "race", i as usize), st), |i| json!({"race_seed": mix_seed(seed, "race", i as usize)}));
    if let Some(v) = &r.violation {
        if v.message.starts_with("HARNESS:") {
            eprintln!("harness: {}", v.message);
            std::process::exit(2);
        }
    }
    rep.absorb("fresh-process-races", r);
    rep
}

pub fn replay(section: &str, case: &Value) -> Option<Result<(), String>> {
    let mut st = Stats::default();
    Some(guarded(|| match section {
        "histories" | "related-histories" => check_history(&history_from_json(case).ok_or("bad case")?, &mut st),
        "process-cold-histories" => check_history_process_cold(&history_from_json(case).ok_or("bad case")?, &mut st),
        "thread-exit-hook" => check_exit_hook(&history_from_json(case).ok_or("bad case")?, &mut st),
        "hammer" => {
            let h = history_from_json(case).ok_or("bad case")?;
            for _ in 0..50 {
                check_hammer(&h, &mut st)?;
            }
            Ok(())
        }
        "cross-thread-determinism" => {
            let cells: Vec<(gen::CellSpec, u8)> = case.as_array().ok_or("bad case")?.iter().map(|x| Some((gen::cellspec_from_json(&x[0])?, x[1].as_u64()? as u8))).collect::<Option<Vec<_>>>().ok_or("bad case")?;
            for _ in 0..5 {
                check_cross_thread_batch(&cells, &mut st)?;
            }
            Ok(())
        }
        "barrier-threads" => {
            let hs: Vec<History> = case.as_array().ok_or("bad case")?.iter().map(history_from_json).collect::<Option<Vec<_>>>().ok_or("bad case")?;
            // a scheduling-dependent failure may need several attempts to show again
            for _ in 0..20 {
                check_concurrent(&hs, &mut st)?;
            }
            Ok(())
        }
        "fresh-process-races" => {
            for _ in 0..20 {
                check_race(case["race_seed"].as_u64().ok_or("bad case")?, &mut st)?;
            }
            Ok(())
        }
        _ => Err(format!("unknown section {}", section)),
    }))
}
