//! C15 — the dodecahedron projection is invertible and maps each face onto its pentagon.

use crate::api;
use crate::engine::*;
use crate::gen;
use crate::oracle::frame::slerp;
use crate::oracle::geo::*;
use proptest::prelude::*;
use serde_json::{json, Value};
use std::sync::OnceLock;

const RULE: &str = "sphere points as unit vectors (uniform; polar; the 62 special points of the dodecahedron perturbed by \
10^U(-16,-1) rad; on face edges, quintant borders and the 10-triangle seams +- 10^U(-12,-2); at the distances from a face \
centre where the small-angle branches switch) projected relative to the nearest and the second-nearest face; planar \
points of the face pentagon in polar sampling (rho from 1e-12 to the boundary, gamma within 1e-12 of k*36 deg) x 12 faces. \
Oracles: nearest face by the harness's true angular distance; planar signed distance to the face pentagon; round trips \
1e-12 (nearest, planar) / 1e-11 (second-nearest). non-trivial = within 1e-6 rad of a seam, edge, vertex, face centre or \
pole, or the second-nearest-face variant is decisive; distinct by the point's bits.";

pub const R_VERTEX: f64 = 0.7639320225002102;
pub const R_EDGE: f64 = 0.6180339887498949;

/// The face pentagon in the library's planar coordinates (from the library), validated once
/// against the regular pentagon with the documented in- and circum-radius.
pub fn face_pentagon() -> &'static Vec<P2> {
    static P: OnceLock<Vec<P2>> = OnceLock::new();
    P.get_or_init(|| {
        let s = a5::core::tiling::get_face_vertices();
        s.get_vertices_vec().iter().map(|f| [f.x(), f.y()]).collect()
    })
}

fn check_face_pentagon_shape() -> Result<(), String> {
    let p = face_pentagon();
    if p.len() != 5 {
        return Err(format!("face pentagon has {} vertices", p.len()));
    }
    for i in 0..5 {
        let r = (p[i][0] * p[i][0] + p[i][1] * p[i][1]).sqrt();
        if (r - R_VERTEX).abs() > 1e-12 {
            return Err(format!("face pentagon vertex {} at radius {} (expected {})", i, r, R_VERTEX));
        }
        let m = [(p[i][0] + p[(i + 1) % 5][0]) / 2.0, (p[i][1] + p[(i + 1) % 5][1]) / 2.0];
        let rm = (m[0] * m[0] + m[1] * m[1]).sqrt();
        if (rm - R_EDGE).abs() > 1e-12 {
            return Err(format!("face pentagon edge {} at distance {} (expected {})", i, rm, R_EDGE));
        }
    }
    // the planar pentagon's corners are the real corners of every face
    let fr = gen::frame();
    for face in 0..12u8 {
        let real = fr.face_vertices(face as usize);
        for q in p.iter() {
            let v = api::inverse(*q, face)?;
            let best = real.iter().map(|r| ang(*r, v)).fold(f64::INFINITY, f64::min);
            if best > 1e-9 {
                return Err(format!("face {}: planar pentagon corner {:?} unprojects {:e} rad away from every vertex of that face", face, q, best));
            }
        }
    }
    Ok(())
}

#[derive(Debug, Clone)]
pub enum SpherePoint {
    Spec(gen::PointSpec),
    /// special point idx perturbed by 10^log_mag in direction dir
    Special { idx: u16, log_mag: f64, dir: f64 },
    /// at distance d from a face centre, direction dir
    Ring { face: u8, d: f64, dir: f64 },
    /// on the great circle between two neighbouring face centres (through the edge midpoint)
    Symmetry { edge: u16, t: f64, log_off: f64, side: bool },
}

fn sp_json(s: &SpherePoint) -> Value {
    match s {
        SpherePoint::Spec(p) => json!({"kind": "spec", "p": gen::point_json(p)}),
        SpherePoint::Special { idx, log_mag, dir } => json!({"kind": "special", "idx": idx, "log_mag": log_mag, "dir": dir}),
        SpherePoint::Ring { face, d, dir } => json!({"kind": "ring", "face": face, "d": d, "dir": dir}),
        SpherePoint::Symmetry { edge, t, log_off, side } => json!({"kind": "symmetry", "edge": edge, "t": t, "log_off": log_off, "side": side}),
    }
}
fn sp_from_json(v: &Value) -> Option<SpherePoint> {
    Some(match v["kind"].as_str()? {
        "spec" => SpherePoint::Spec(gen::point_from_json(&v["p"])?),
        "special" => SpherePoint::Special { idx: v["idx"].as_u64()? as u16, log_mag: v["log_mag"].as_f64()?, dir: v["dir"].as_f64()? },
        "ring" => SpherePoint::Ring { face: v["face"].as_u64()? as u8, d: v["d"].as_f64()?, dir: v["dir"].as_f64()? },
        "symmetry" => SpherePoint::Symmetry { edge: v["edge"].as_u64()? as u16, t: v["t"].as_f64()?, log_off: v["log_off"].as_f64()?, side: v["side"].as_bool()? },
        _ => return None,
    })
}

fn special_point(i: usize) -> V3 {
    let fr = gen::frame();
    if i < 12 {
        fr.centres[i]
    } else if i < 32 {
        fr.vertices[i - 12].0
    } else {
        fr.edges[i - 32].0
    }
}

impl SpherePoint {
    pub fn vec(&self) -> (V3, &'static str) {
        match self {
            SpherePoint::Spec(p) => {
                let g = p.point();
                (g.vec(), g.class_name())
            }
            SpherePoint::Special { idx, log_mag, dir } => {
                let b = special_point(pick_index(*idx, 62));
                let m = 10f64.powf(*log_mag);
                (offset_point(b, m * dir.cos(), m * dir.sin()), "special-tight")
            }
            SpherePoint::Ring { face, d, dir } => {
                let b = gen::frame().centres[*face as usize % 12];
                (offset_point(b, d.tan() * dir.cos(), d.tan() * dir.sin()), "branch-switch-ring")
            }
            SpherePoint::Symmetry { edge, t, log_off, side } => {
                let fr = gen::frame();
                let e = &fr.edges[pick_index(*edge, 30)];
                let p = slerp(fr.centres[e.1[0]], fr.centres[e.1[1]], *t);
                let m = 10f64.powf(*log_off) * if *side { 1.0 } else { -1.0 };
                // offset perpendicular to the symmetry line
                let n = unit(cross(fr.centres[e.1[0]], fr.centres[e.1[1]]));
                (unit(add(p, scale(n, m))), "symmetry-line")
            }
        }
    }
}

pub fn sphere_points() -> BoxedStrategy<SpherePoint> {
    prop_oneof![
        6 => gen::point_spec([20, 6, 6, 2, 2, 14, 16, 16, 18]).prop_map(SpherePoint::Spec),
        3 => (any::<u16>(), -16.0f64..-1.0, 0.0f64..std::f64::consts::TAU).prop_map(|(idx, log_mag, dir)| SpherePoint::Special { idx, log_mag, dir }),
        2 => (0u8..12, prop_oneof![
                (-1.0f64..1.0).prop_map(|u| 2e-3 * (1.0 + 1e-2 * u)),
                (-1.0f64..1.0).prop_map(|u| 2e-3 * (1.0 + 1e-6 * u)),
                (-13.0f64..-11.0).prop_map(|l| 10f64.powf(l)),
                (-9.0f64..-7.0).prop_map(|l| 10f64.powf(l)),
                (0.0f64..0.65),
            ], 0.0f64..std::f64::consts::TAU).prop_map(|(face, d, dir)| SpherePoint::Ring { face, d, dir }),
        2 => (any::<u16>(), 0.0f64..1.0, -15.0f64..-2.0, any::<bool>()).prop_map(|(edge, t, log_off, side)| SpherePoint::Symmetry { edge, t, log_off, side }),
    ]
    .boxed()
}

/// How close (radians) the point is to the nearest of: a face centre, a dodecahedron vertex, a face
/// edge, a quintant border, a 10-triangle seam, a pole.
pub fn structure_distance(v: V3) -> f64 {
    let fr = gen::frame();
    let ranked = fr.ranked_faces(v);
    let f = ranked[0].0;
    let c = fr.centres[f];
    let mut best = ranked[0].1; // distance to the face centre
    best = best.min(ranked[1].1 - ranked[0].1); // ~ 2 x distance to the bisector = face edge
    // seams through the centre: great circles centre-vertex and centre-edge-midpoint
    let (e1, e2) = tangent_basis(c);
    let az = dot(v, e2).atan2(dot(v, e1));
    let vs = fr.face_vertices(f);
    let az0 = dot(vs[0], e2).atan2(dot(vs[0], e1));
    let step = std::f64::consts::PI / 5.0;
    let rel = ((az - az0) / step).rem_euclid(1.0);
    let off = rel.min(1.0 - rel) * step; // angular offset from the nearest of the 10 seams
    best = best.min(off * ranked[0].1.sin());
    best = best.min(v[2].abs().acos().min((1.0 - v[2].abs()).max(0.0).sqrt() * 1.5));
    best
}

fn check_sphere(sp: &SpherePoint, st: &mut Stats) -> Result<(), String> {
    let (v, class) = sp.vec();
    let fr = gen::frame();
    let ranked = fr.ranked_faces(v);
    let (f1, d1) = ranked[0];
    let (f2, d2) = ranked[1];
    let pent = face_pentagon();
    let ambiguous = d2 - d1 < 1e-9;

    // nearest face
    let q = api::forward(v, f1 as u8).map_err(|e| format!("forward failed: {}", e))?;
    if !(q[0].is_finite() && q[1].is_finite()) {
        return Err(format!("forward({:?}, face {}) = {:?} is not finite", v, f1, q));
    }
    let rho = (q[0] * q[0] + q[1] * q[1]).sqrt();
    let sd = convex_signed_dist(pent, q);
    if !ambiguous {
        if rho > R_VERTEX + 1e-12 {
            return Err(format!("forward({:?}, nearest face {}) = {:?} has radius {} > centre-to-vertex distance", v, f1, q, rho));
        }
        if sd < -1.5e-12 {
            return Err(format!("forward({:?}, nearest face {}) = {:?} lies {:e} outside the face pentagon", v, f1, q, -sd));
        }
    }
    let back = api::inverse(q, f1 as u8).map_err(|e| format!("inverse failed: {}", e))?;
    let e1 = ang(back, v);
    st.fmax("roundtrip-nearest-rad", e1);
    if !(e1 <= 1e-12) {
        return Err(format!(
            "inverse(forward(p)) relative to nearest face {} is {:e} rad from p = {:?} (planar {:?})",
            f1, e1, v, q
        ));
    }
    // second-nearest face: the neighbour across the closest edge
    let q2 = api::forward(v, f2 as u8).map_err(|e| format!("forward (second face) failed: {}", e))?;
    let sd2 = convex_signed_dist(pent, q2);
    if !ambiguous && sd2 > 1.5e-12 {
        return Err(format!(
            "forward({:?}, second-nearest face {}) = {:?} lies {:e} inside that face's pentagon (nearest face is {}, {:e} rad nearer)",
            v, f2, q2, sd2, f1, d2 - d1
        ));
    }
    let back2 = api::inverse(q2, f2 as u8).map_err(|e| format!("inverse (second face) failed: {}", e))?;
    let e2 = ang(back2, v);
    st.fmax("roundtrip-second-nearest-rad", e2);
    if !(e2 <= 1e-11) {
        return Err(format!(
            "inverse(forward(p)) relative to second-nearest face {} is {:e} rad from p = {:?} (planar {:?})",
            f2, e2, v, q2
        ));
    }
    let sdist = structure_distance(v);
    let nt = sdist < 1e-6;
    if nt {
        st.nontrivial(&(v[0].to_bits(), v[1].to_bits(), v[2].to_bits()));
    }
    st.hit(&format!("class:{}", class));
    st.hit(&format!("face:{:02}", f1));
    st.hit(&format!("structure-distance:{}", if sdist < 1e-12 { "<1e-12" } else if sdist < 1e-9 { "<1e-9" } else if sdist < 1e-6 { "<1e-6" } else if sdist < 1e-3 { "<1e-3" } else { ">=1e-3" }));
    if ambiguous {
        st.hit("equidistant(<1e-9): either labelling accepted");
    }
    st.sample(nt, || json!({"point": v, "class": class, "nearest": f1, "second": f2, "planar": q, "planar_second": q2, "err": [e1, e2]}));
    Ok(())
}

#[derive(Debug, Clone)]
pub struct PlanarCase {
    pub face: u8,
    pub k: u8,
    pub mode: u8,
    pub u: f64,
    pub log_d: f64,
    pub side: bool,
}
fn planar_json(c: &PlanarCase) -> Value {
    json!({"face": c.face, "k": c.k, "mode": c.mode, "u": c.u, "log_d": c.log_d, "side": c.side})
}
fn planar_from_json(v: &Value) -> Option<PlanarCase> {
    Some(PlanarCase {
        face: v["face"].as_u64()? as u8,
        k: v["k"].as_u64()? as u8,
        mode: v["mode"].as_u64()? as u8,
        u: v["u"].as_f64()?,
        log_d: v["log_d"].as_f64()?,
        side: v["side"].as_bool()?,
    })
}

/// Radius of the face pentagon boundary in direction gamma (edge normals at 72k degrees).
fn boundary_rho(gamma: f64) -> f64 {
    let step = std::f64::consts::TAU / 5.0;
    let rel = gamma - (gamma / step).round() * step;
    R_EDGE / rel.cos()
}

impl PlanarCase {
    fn point(&self) -> P2 {
        let step = std::f64::consts::PI / 5.0;
        let s = if self.side { 1.0 } else { -1.0 };
        let (rho_frac, gamma) = match self.mode % 5 {
            // uniform in the pentagon
            0 => (self.u.sqrt(), step * (self.k as f64) + step * (10f64.powf(self.log_d).min(1.0))),
            // gamma within 10^log_d of a seam k*36deg
            1 => (self.u, step * (self.k as f64) + s * 10f64.powf(self.log_d.min(-2.0))),
            // tiny rho
            2 => (10f64.powf(-12.0 + 10.0 * self.u) / R_EDGE, step * (self.k as f64) + step * 0.37 * s),
            // hugging the boundary from inside
            3 => (1.0 - 10f64.powf(self.log_d.min(-1.0)), step * (self.k as f64) + step * self.u),
            // near a corner / edge midpoint, both close to the boundary and to a seam
            _ => (1.0 - 10f64.powf(self.log_d.min(-1.0)), step * (self.k as f64) + s * 10f64.powf(-12.0 + 10.0 * self.u)),
        };
        let rho = rho_frac.clamp(0.0, 1.0) * boundary_rho(gamma);
        [rho * gamma.cos(), rho * gamma.sin()]
    }
}

fn check_planar(c: &PlanarCase, st: &mut Stats) -> Result<(), String> {
    let q = c.point();
    let face = c.face % 12;
    let sd = convex_signed_dist(face_pentagon(), q);
    if sd < 0.0 {
        // generated on/inside the boundary up to rounding; skip the rare rounding-out
        st.hit("planar:rounded-outside(skipped)");
        return Ok(());
    }
    let v = api::inverse(q, face).map_err(|e| format!("inverse failed: {}", e))?;
    let n = norm(v);
    if !((n - 1.0).abs() < 1e-12) {
        return Err(format!("inverse({:?}, face {}) = {:?} is not a unit vector", q, face, v));
    }
    let q2 = api::forward(v, face).map_err(|e| format!("forward failed: {}", e))?;
    let e = ((q2[0] - q[0]).powi(2) + (q2[1] - q[1]).powi(2)).sqrt();
    st.fmax("planar-roundtrip", e);
    if !(e <= 1e-12) {
        return Err(format!("forward(inverse({:?}, face {})) = {:?}: off by {:e} (> 1e-12)", q, face, q2, e));
    }
    // the unprojected point's nearest face is this face (interior points)
    if sd > 1e-9 {
        let r = gen::frame().ranked_faces(v);
        if r[0].0 != face as usize {
            return Err(format!("planar point {:?} inside face {}'s pentagon (margin {:e}) unprojects to a point nearer to face {}", q, face, sd, r[0].0));
        }
    }
    let rho = (q[0] * q[0] + q[1] * q[1]).sqrt();
    let step = std::f64::consts::PI / 5.0;
    let g = q[1].atan2(q[0]);
    let seam_off = (g / step - (g / step).round()).abs() * step * rho;
    let nt = seam_off < 1e-6 || sd < 1e-6 || rho < 1e-6;
    if nt {
        st.nontrivial(&(face, q[0].to_bits(), q[1].to_bits()));
    }
    st.hit(&format!("planar-mode:{}", ["uniform", "near-seam", "tiny-rho", "near-boundary", "corner"][c.mode as usize % 5]));
    st.sample(nt, || json!({"face": face, "planar": q, "back": q2, "err": e}));
    Ok(())
}

pub fn run(tier: Tier, seed: u64) -> Report {
    let mut rep = Report::new("C15", tier, seed, RULE);
    rep.assume("face pentagon in planar coordinates taken from get_face_vertices(), validated against the regular pentagon (radii 0.618../0.7639..) and against the real corners of all 12 faces");
    let r = run_exhaustive("face-pentagon", 1, |_, st| { st.nontrivial(&0u8); check_face_pentagon_shape() }, |_| json!({}));
    if !rep.absorb("face-pentagon", r) {
        return rep;
    }
    let r = run_pbt("sphere", seed, tier.pick(400_000, 12_000_000), sphere_points, check_sphere, sp_json);
    if !rep.absorb("sphere", r) {
        return rep;
    }
    let r = run_pbt(
        "planar",
        seed,
        tier.pick(250_000, 8_000_000),
        || {
            (0u8..12, 0u8..10, 0u8..5, 0.0f64..1.0, -13.0f64..0.0, any::<bool>())
                .prop_map(|(face, k, mode, u, log_d, side)| PlanarCase { face, k, mode, u, log_d, side })
                .boxed()
        },
        check_planar,
        planar_json,
    );
    rep.absorb("planar", r);
    rep
}

pub fn replay(section: &str, case: &Value) -> Option<Result<(), String>> {
    let mut st = Stats::default();
    Some(guarded(|| match section {
        "face-pentagon" => check_face_pentagon_shape(),
        "sphere" => check_sphere(&sp_from_json(case).ok_or("bad case")?, &mut st),
        "planar" => check_planar(&planar_from_json(case).ok_or("bad case")?, &mut st),
        _ => Err(format!("unknown section {}", section)),
    }))
}
