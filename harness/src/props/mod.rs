pub mod known;

pub mod c01;
pub mod c02;
pub mod c03;
pub mod c04;
pub mod contain;
pub mod fuzzdec;
pub mod c05;
pub mod c06;
pub mod c07;
pub mod c08;
pub mod c09;
pub mod c10;
pub mod c11;
pub mod c12;
pub mod c13;
pub mod c14;
pub mod c15;
pub mod c16;
pub mod c17;
pub mod c18;
pub mod c19;
pub mod sets;
pub mod c20;

use crate::engine::{Report, Tier};
use known::Known;
use serde_json::Value;

pub fn run(id: &str, tier: Tier, seed: u64, known: &[Known]) -> Option<Report> {
    let _ = known;
    Some(match id {
        "C01" => c01::run(tier, seed),
        "C02" => c02::run(tier, seed),
        "C03" => c03::run(tier, seed),
        "C04" => c04::run(tier, seed),
        "C05" => c05::run(tier, seed),
        "C06" => c06::run(tier, seed),
        "C07" => c07::run(tier, seed),
        "C08" => c08::run(tier, seed),
        "C09" => c09::run(tier, seed),
        "C10" => c10::run(tier, seed),
        "C11" => c11::run(tier, seed),
        "C12" => c12::run(tier, seed),
        "C13" => c13::run(tier, seed),
        "C14" => c14::run(tier, seed),
        "C15" => c15::run(tier, seed),
        "C16" => c16::run(tier, seed),
        "C17" => c17::run(tier, seed),
        "C18" => c18::run(tier, seed),
        "C19" => c19::run(tier, seed),
        "C20" => c20::run(tier, seed),
        _ => return None,
    })
}

pub fn replay(id: &str, section: &str, case: &Value) -> Option<Result<(), String>> {
    match id {
        "C01" => c01::replay(section, case),
        "C02" => c02::replay(section, case),
        "C03" => c03::replay(section, case),
        "C04" => c04::replay(section, case),
        "C05" => c05::replay(section, case),
        "C06" => c06::replay(section, case),
        "C07" => c07::replay(section, case),
        "C08" => c08::replay(section, case),
        "C09" => c09::replay(section, case),
        "C10" => c10::replay(section, case),
        "C11" => c11::replay(section, case),
        "C12" => c12::replay(section, case),
        "C13" => c13::replay(section, case),
        "C14" => c14::replay(section, case),
        "C15" => c15::replay(section, case),
        "C16" => c16::replay(section, case),
        "C17" => c17::replay(section, case),
        "C18" => c18::replay(section, case),
        "C19" => c19::replay(section, case),
        "C20" => c20::replay(section, case),
        _ => None,
    }
}

pub fn child(args: &[String]) -> i32 {
    match args.first().map(|s| s.as_str()) {
        Some("c14") if args.len() >= 5 => c14::child_campaign(&args[1..]),
        Some("c13-race") if args.len() >= 2 => c13::child_race(&args[1..]),
        Some("c13-op") if args.len() >= 2 => c13::child_op(&args[1..]),
        Some("c13-batch") if args.len() >= 2 => c13::child_batch(&args[1..]),
        Some("c14-one") if args.len() >= 2 => c14::child_one(&args[1..]),
        _ => 2,
    }
}
