pub mod known;

pub mod c05;

use crate::engine::{Report, Tier};
use known::Known;
use serde_json::Value;

pub fn run(id: &str, tier: Tier, seed: u64, known: &[Known]) -> Option<Report> {
    let _ = known;
    Some(match id {
        "C05" => c05::run(tier, seed),
        _ => return None,
    })
}

pub fn replay(id: &str, section: &str, case: &Value) -> Option<Result<(), String>> {
    match id {
        "C05" => c05::replay(section, case),
        _ => None,
    }
}

pub fn child(_args: &[String]) -> i32 {
    2
}
