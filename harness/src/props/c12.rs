//! C12 — children geometrically overlap their parent and stay within its reach.

use crate::api;
use crate::engine::*;
use crate::gen;
use crate::oracle::codec::{self, Cell};
use crate::oracle::geo::*;
use crate::oracle::tree;
use proptest::prelude::*;
use serde_json::{json, Value};

const RULE: &str = "parent cells r = 0..28: exhaustive for the low resolutions, generated (every face/quintant, position \
classes) above, each with all of its children. Oracles: planar convex clipping on centre-translated coordinates \
(parent and children share a face plane and the projection preserves area ratios, C16): every child shares > 1% of \
its area with the parent, the children together cover > 50% of the parent; on the sphere (independent kit) each \
child's reported centre is within 0.8*sqrt(parent area) of the parent's reported centre, and a depth-3 descendant \
within the transitive bound. non-trivial = r >= 2 (digit-shift patterns active); distinct by parent ID.";

fn poly_area(p: &[P2]) -> f64 {
    (poly_area2(p) / 2.0).abs()
}

pub fn check_parent(c: &Cell, deep_pick: u16, st: &mut Stats) -> Result<(), String> {
    let id = codec::encode(c);
    let kids_ids = a5::cell_to_children(id, None).map_err(|e| format!("cell_to_children({:#x}) failed: {}", id, e))?;
    let kids: Vec<Cell> = kids_ids
        .iter()
        .map(|&k| codec::decode(k).ok_or_else(|| format!("non-canonical child {:#x}", k)))
        .collect::<Result<_, _>>()?;
    let pc = api::centre_vec(id)?;
    let sphere = 4.0 * std::f64::consts::PI;
    let parent_area_sph = sphere / codec::num_cells(c.res) as f64;
    let reach = 0.8 * parent_area_sph.sqrt();
    let mut worst_centre: f64 = 0.0;
    for &k in &kids_ids {
        let kc = api::centre_vec(k)?;
        let d = ang(pc, kc);
        worst_centre = worst_centre.max(d / parent_area_sph.sqrt());
        if !(d <= reach) {
            return Err(format!(
                "child {:#x} of {:#x} (res {}): centres are {:.6e} rad apart = {:.4} sqrt(parent area), bound is 0.8",
                k, id, c.res, d, d / parent_area_sph.sqrt()
            ));
        }
    }
    st.fmax("max-centre-distance/sqrt(parent-area)", worst_centre);
    // planar overlap (same face plane from r = 0 down; the base cell and its quintants included)
    let pp = api::pentagon(c)?;
    let origin = [pp.iter().map(|v| v[0]).sum::<f64>() / pp.len() as f64, pp.iter().map(|v| v[1]).sum::<f64>() / pp.len() as f64];
    let pa = poly_area(&pp.iter().map(|v| [v[0] - origin[0], v[1] - origin[1]]).collect::<Vec<_>>());
    let mut total = 0.0;
    let mut min_frac = f64::INFINITY;
    for (k, kc) in kids.iter().enumerate() {
        let kp = api::pentagon(kc)?;
        let ka = poly_area(&kp.iter().map(|v| [v[0] - origin[0], v[1] - origin[1]]).collect::<Vec<_>>());
        let inter = clip_area(&kp, &pp, origin);
        let frac = inter / ka;
        min_frac = min_frac.min(frac);
        if !(frac > 0.01) {
            return Err(format!(
                "child {:#x} of {:#x} (res {}) shares {:.4}% of its area with the parent (planar clipping)",
                kids_ids[k], id, c.res, 100.0 * frac
            ));
        }
        total += inter;
    }
    let cover = total / pa;
    st.fmax("neg-min-child-overlap-fraction", -min_frac);
    st.fmax("neg-min-parent-coverage", -cover);
    if !(cover > 0.5) {
        return Err(format!("children of {:#x} (res {}) cover {:.4} of the parent's area (must exceed 0.5)", id, c.res, cover));
    }
    // transitive reach, spot check at depth 3
    if c.res + 3 <= 29 && c.res >= 0 {
        let ds = a5::cell_to_children(id, Some(c.res + 3)).map_err(|e| format!("cell_to_children depth 3 failed: {}", e))?;
        let x = ds[pick_index(deep_pick, ds.len())];
        let xc = api::centre_vec(x)?;
        // sum of the per-level bounds: 0.8 (sqrt(A) + sqrt(A1) + sqrt(A2))
        let mut bound = 0.0;
        for l in 0..3 {
            bound += 0.8 * (sphere / codec::num_cells(c.res + l) as f64).sqrt();
        }
        let d = ang(pc, xc);
        if !(d <= bound) {
            return Err(format!("depth-3 descendant {:#x} of {:#x} is {:.6e} rad away, transitive bound {:.6e}", x, id, d, bound));
        }
    }
    let nt = c.res >= 2;
    if nt {
        st.nontrivial(&id);
    }
    st.hit(&format!("parent-res:{:02}", c.res));
    if c.res >= 2 {
        st.hit(&format!("last-two-digits:{:x}", c.pos & 15));
    }
    st.sample(nt, || json!({"parent": gen::cell_json(c), "children": kids_ids.iter().map(|k| format!("{:x}", k)).collect::<Vec<_>>(), "coverage": cover, "min_child_overlap": min_frac, "max_centre_distance_over_sqrt_area": worst_centre}));
    let _ = tree::children(c);
    Ok(())
}

pub fn run(tier: Tier, seed: u64) -> Report {
    let mut rep = Report::new("C12", tier, seed, RULE);
    rep.assume("planar pentagons from get_pentagon; equal-area projection makes planar area ratios equal spherical ones (C16)");
    let max_ex = tier.pick(4, 6);
    for res in 0..=max_ex {
        let n = codec::num_cells(res) as u64;
        let name = format!("exhaustive-r{}", res);
        let r = run_exhaustive(&name, n, |i, st| check_parent(&gen::cell_by_index(res, i), (i % 65536) as u16, st), |i| json!({"res": res, "index": i}));
        rep.exhaustive.push(format!("all {} parents of resolution {}", n, res));
        if !rep.absorb(&name, r) {
            return rep;
        }
    }
    let r = run_pbt(
        "parents",
        seed,
        tier.pick(20_000, 600_000),
        || (gen::cell_spec(0, 28), any::<u16>()).boxed(),
        |(spec, pick), st| check_parent(&spec.cell(), *pick, st),
        |(spec, pick)| json!({"cell": gen::cellspec_json(spec), "pick": pick}),
    );
    rep.absorb("parents", r);
    rep
}

pub fn replay(section: &str, case: &Value) -> Option<Result<(), String>> {
    let mut st = Stats::default();
    Some(guarded(|| {
        if section.starts_with("exhaustive-r") {
            let i = case["index"].as_u64().ok_or("bad case")?;
            check_parent(&gen::cell_by_index(case["res"].as_i64().ok_or("bad case")? as i32, i), (i % 65536) as u16, &mut st)
        } else if section == "parents" {
            check_parent(&gen::cellspec_from_json(&case["cell"]).ok_or("bad case")?.cell(), case["pick"].as_u64().ok_or("bad case")? as u16, &mut st)
        } else {
            Err(format!("unknown section {}", section))
        }
    }))
}
