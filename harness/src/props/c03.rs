//! C03 — cells of one resolution partition the sphere: no overlaps, no gaps.

use super::contain::{self, RingInfo, RingVerdict};
use crate::api;
use crate::engine::*;
use crate::gen;
use crate::oracle::codec::{self, Cell};
use crate::oracle::geo::*;
use crate::oracle::tree;
use proptest::prelude::*;
use serde_json::{json, Value};
use std::collections::BTreeSet;
use std::sync::OnceLock;

const RULE: &str = "points weighted towards the 20 vertices, 30 edges, quintant borders, projection seams and poles (>= 60%) plus \
edge-hugging points of random cells. Exhaustive tier: the point is tested against the boundary ring of EVERY cell of the \
resolution (bounding-cap prefilter). Neighbourhood tier (r up to 29): against all descendants of the r-2 ancestors of \
the lookups of the point and of 16 tangent-plane offsets at 1 and 2 cell diameters, plus the lookups of a 5x5 grid at \
0.6-cell spacing. Oracle: number of rings strictly containing the point (outside each ring's sagitta band) <= 1 and == 1 \
when no candidate is undecided; undecided candidates go to the planar signed-distance oracle (strictly inside > 2e-12 in \
at most one; covered >= -1.5e-12 by at least one). Cross-check: the unique container is the lookup's answer. \
non-trivial = candidates come from >= 2 quintants/faces, or the point is in the band of >= 1 candidate; distinct by \
(point bits, resolution).";

/// All rings of a resolution, built once per process (in parallel).
fn all_rings(res: i32) -> &'static Result<Vec<RingInfo>, String> {
    static R: [OnceLock<Result<Vec<RingInfo>, String>>; 6] = [OnceLock::new(), OnceLock::new(), OnceLock::new(), OnceLock::new(), OnceLock::new(), OnceLock::new()];
    R[res as usize].get_or_init(|| {
        let n = codec::num_cells(res) as u64;
        let sub = if res <= 3 { 64 } else { 32 };
        let chunks: Vec<Result<Vec<RingInfo>, String>> = std::thread::scope(|sc| {
            let hs: Vec<_> = (0..WORKERS as u64)
                .map(|w| {
                    sc.spawn(move || {
                        let per = n.div_ceil(WORKERS as u64);
                        let mut v = Vec::new();
                        for i in (w * per)..((w + 1) * per).min(n) {
                            let c = gen::cell_by_index(res, i);
                            let id = codec::encode(&c);
                            match guarded(|| contain::ring_info(id, &c, sub)) {
                                Ok(r) => v.push(r),
                                Err(e) => return Err(format!("cell_to_boundary({:#x}) of a valid cell failed: {}", id, e)),
                            }
                        }
                        Ok(v)
                    })
                })
                .collect();
            hs.into_iter().map(|h| h.join().unwrap_or_else(|_| Err("ring builder thread died".into()))).collect()
        });
        let mut all = Vec::new();
        for c in chunks {
            all.extend(c?);
        }
        Ok(all)
    })
}

struct Tally {
    strict: Vec<u64>,
    covered: bool,
    band: usize,
    candidates: usize,
    faces: BTreeSet<(u8, u8)>,
}

/// Judge point p against candidate rings.
fn judge<'a>(p: V3, cands: impl Iterator<Item = &'a RingInfo>) -> Result<Tally, String> {
    let mut t = Tally { strict: Vec::new(), covered: false, band: 0, candidates: 0, faces: BTreeSet::new() };
    for info in cands {
        let (rv, rt) = info.test(p);
        if std::env::var("A5VERIF_DEBUG").is_ok() && ang(p, info.centre) <= info.cap {
            let (lon, lat) = lonlat_of_vec(p);
            eprintln!(
                "DEBUG judge {:#x}: ring {:?} visible {} dist {:e} band {:e} cap {:e} ang {:e} lib {:?}",
                info.id, rv, rt.visible, rt.dist, info.band, info.cap, ang(p, info.centre),
                a5::core::cell::a5cell_contains_point(&crate::api::to_a5cell(&info.cell), api::lonlat(lon, lat.clamp(-90.0, 90.0)))
            );
        }
        // the library's own predicate (an observation point of this property) must agree with the ring
        // oracle wherever the point is clear of the cell's outline by a wide margin
        if rt.visible && rt.dist > 8.0 * info.band.max(contain::BAND) && ang(p, info.centre) <= 2.0 * info.cap {
            let (lon, lat) = lonlat_of_vec(p);
            if let Ok(d) = a5::core::cell::a5cell_contains_point(&crate::api::to_a5cell(&info.cell), api::lonlat(lon, lat.clamp(-90.0, 90.0))) {
                let lib_inside = d > 0.0;
                let ring_inside = rv == RingVerdict::Inside;
                if lib_inside != ring_inside {
                    return Err(format!(
                        "the library's containment test says point ({}, {}) is {} cell {:#x} (value {:e}), but the point is {:.3e} rad {} its boundary ring",
                        lon, lat, if lib_inside { "strictly inside" } else { "not inside" }, info.id, d, rt.dist, if ring_inside { "inside" } else { "outside" }
                    ));
                }
            }
        }
        // ... and, closer to the outline than the ring oracle can decide, with the harness's own signed distance
        // of the projected point to the cell's pentagon (same projection, different predicate): beyond the
        // rounding band the two must have the same sign. Catches a predicate that gives up a sliver of a cell.
        if rt.visible && ang(p, info.centre) <= 2.0 * info.cap {
            if let Ok(sd) = contain::planar_signed_dist(&info.cell, p) {
                if sd.abs() > 4.0 * contain::STRICT {
                    let (lon, lat) = lonlat_of_vec(p);
                    if let Ok(d) = a5::core::cell::a5cell_contains_point(&crate::api::to_a5cell(&info.cell), api::lonlat(lon, lat.clamp(-90.0, 90.0))) {
                        if (d > 0.0) != (sd > 0.0) {
                            return Err(format!(
                                "the library's containment test says point ({}, {}) is {} cell {:#x} (value {:e}), but its projection lies {:.3e} face units {} the cell's pentagon",
                                lon, lat, if d > 0.0 { "strictly inside" } else { "not inside" }, info.id, d, sd.abs(), if sd > 0.0 { "inside" } else { "outside" }
                            ));
                        }
                    }
                }
            }
        }
        match rv {
            RingVerdict::Outside => {
                // near misses still count as candidates for the non-triviality rule
                if ang(p, info.centre) <= info.cap {
                    t.candidates += 1;
                    t.faces.insert((info.cell.face, info.cell.quintant));
                }
            }
            RingVerdict::Inside => {
                t.candidates += 1;
                t.faces.insert((info.cell.face, info.cell.quintant));
                t.strict.push(info.id);
                t.covered = true;
            }
            RingVerdict::Band => {
                t.candidates += 1;
                t.band += 1;
                t.faces.insert((info.cell.face, info.cell.quintant));
                let sd = contain::planar_signed_dist(&info.cell, p)?;
                if sd > contain::STRICT {
                    t.strict.push(info.id);
                }
                if sd >= -contain::BAND {
                    t.covered = true;
                }
            }
        }
    }
    Ok(t)
}

fn verdict(p: V3, lon: f64, lat: f64, res: i32, t: &Tally, class: &str, tier_name: &str, st: &mut Stats) -> Result<(), String> {
    if t.strict.len() > 1 {
        return Err(format!(
            "overlap at resolution {}: point ({}, {}) lies strictly inside {} cells: {:x?} [{} tier, class {}]",
            res, lon, lat, t.strict.len(), t.strict, tier_name, class
        ));
    }
    if !t.covered {
        return Err(format!(
            "gap at resolution {}: point ({}, {}) is inside none of the {} candidate cells (and in no candidate's edge band) [{} tier, class {}]",
            res, lon, lat, t.candidates, tier_name, class
        ));
    }
    if t.band == 0 && t.strict.len() != 1 {
        return Err(format!("point ({}, {}) at resolution {}: {} containing rings although no ring is undecided", lon, lat, res, t.strict.len()));
    }
    // cross-check with the lookup when the container is unique and strict
    if t.strict.len() == 1 {
        let got = a5::lonlat_to_cell(api::lonlat(lon, lat), res).map_err(|e| format!("lonlat_to_cell failed: {}", e))?;
        if got != t.strict[0] {
            // the lookup may legitimately differ only if the point is in the lookup cell's band
            let v = contain::contains(got, p)?;
            if v.strict || !v.contained {
                return Err(format!(
                    "point ({}, {}) at resolution {} lies strictly inside {:#x} only, but the lookup returns {:#x} (planar {:.3e})",
                    lon, lat, res, t.strict[0], got, v.planar
                ));
            }
        }
    }
    let nt = t.faces.len() >= 2 || t.band >= 1;
    if nt {
        st.nontrivial(&(lon.to_bits(), lat.to_bits(), res));
    }
    st.hit(&format!("{}:class:{}", tier_name, class));
    st.hit(&format!("{}:res:{:02}", tier_name, res));
    st.hit(&format!("{}:quintants-among-candidates:{}", tier_name, t.faces.len().min(4)));
    if t.band > 0 {
        st.hit(&format!("{}:in-band-of-{}-candidates", tier_name, t.band.min(3)));
    }
    st.add(&format!("{}:candidate-cells-tested", tier_name), t.candidates as u64);
    st.sample(nt, || json!({"lon": lon, "lat": lat, "res": res, "class": class, "tier": tier_name, "candidates": t.candidates, "in_band_of": t.band, "strict_containers": t.strict.iter().map(|x| format!("{:x}", x)).collect::<Vec<_>>()}));
    Ok(())
}

/// The library's own predicate against cells that are nowhere near the point (the ring oracle cannot be asked
/// there: its gnomonic test needs the cell within a hemisphere of the point, and the cross-check in `judge` only
/// covers two cell radii): a cell whose bounding cap does not reach the point must not claim it. All 72 cells
/// of r <= 1, and one far cell in `stride` (chosen by the point's bits) above.
fn far_cells_do_not_claim(p: V3, lon: f64, lat: f64, res: i32, rings: &[RingInfo], stride: usize, st: &mut Stats) -> Result<(), String> {
    let stride = if res <= 1 { 1 } else { stride.max(1) };
    let phase = (lon.to_bits() >> 11) as usize % stride;
    let ll = api::lonlat(lon, lat.clamp(-90.0, 90.0));
    let mut asked = 0u64;
    for (i, info) in rings.iter().enumerate() {
        if i % stride != phase {
            continue;
        }
        let d = ang(p, info.centre);
        if d <= 1.5 * info.cap + 1e-9 {
            continue;
        }
        asked += 1;
        if let Ok(v) = a5::core::cell::a5cell_contains_point(&crate::api::to_a5cell(&info.cell), ll) {
            if v > 0.0 {
                return Err(format!(
                    "overlap at resolution {}: the library's containment test says point ({}, {}) is strictly inside cell {:#x} (value {:e}), whose centre is {:.4} rad away and whose corners all lie within {:.4} rad of that centre",
                    res, lon, lat, info.id, v, d, info.cap
                ));
            }
        }
    }
    st.add("exhaustive:far-cells-asked-through-the-library-predicate", asked);
    Ok(())
}

fn check_exhaustive(src: &super::c01::Src, res: i32, st: &mut Stats) -> Result<(), String> {
    let (lon, lat, class) = src.with_res(res).lonlat()?;
    let p = vec_of_lonlat(lon, lat);
    let rings = all_rings(res).as_ref().map_err(|e| e.clone())?;
    let t = judge(p, rings.iter())?;
    far_cells_do_not_claim(p, lon, lat, res, rings, 4, st)?;
    verdict(p, lon, lat, res, &t, class, "exhaustive", st)
}

fn check_neighbourhood(src: &super::c01::Src, res: i32, st: &mut Stats) -> Result<(), String> {
    let (lon, lat, class) = src.with_res(res).lonlat()?;
    check_neighbourhood_at(lon, lat, class, res, st)
}

/// Points within a cell size or two of one of the 20 dodecahedron vertices, scaled to the resolution asked: where
/// cells of three faces interlock and the tips of cells poke past a face's corner (the statement names this place).
fn check_vertex_neighbourhood(vertex: u8, dx: f64, dy: f64, res: i32, st: &mut Stats) -> Result<(), String> {
    let fr = gen::frame();
    let (v, _) = fr.vertices[vertex as usize % 20];
    let size = contain::cell_size(res);
    let q = offset_point(v, dx * size, dy * size);
    let (lon, lat) = lonlat_of_vec(q);
    let lat = lat.clamp(-90.0, 90.0);
    if dx.to_bits() & 0x10 == 0 {
        return check_neighbourhood_at(lon, lat, "within-2-cell-sizes-of-a-dodecahedron-vertex", res, st);
    }
    // half of the cases: the far tip of the cell found there - the corner of its pentagon that lies furthest from
    // its own face centre (beyond the face's corner or edge), and a point a little way in from that corner
    let id = a5::lonlat_to_cell(api::lonlat(lon, lat), res).map_err(|e| format!("lonlat_to_cell failed: {}", e))?;
    let c = codec::decode(id).ok_or("non-canonical cell from lookup")?;
    let pent = api::pentagon(&c)?;
    let k = (0..pent.len()).max_by(|&a, &b| (pent[a][0].hypot(pent[a][1])).partial_cmp(&pent[b][0].hypot(pent[b][1])).unwrap()).unwrap();
    let cx = pent.iter().map(|p| p[0]).sum::<f64>() / pent.len() as f64;
    let cy = pent.iter().map(|p| p[1]).sum::<f64>() / pent.len() as f64;
    let t = 0.01 + 0.35 * (dy.abs() / 2.0);
    let tip = [pent[k][0] + t * (cx - pent[k][0]), pent[k][1] + t * (cy - pent[k][1])];
    let pv = api::inverse(tip, c.face)?;
    let (lon, lat) = lonlat_of_vec(pv);
    check_neighbourhood_at(lon, lat.clamp(-90.0, 90.0), "far-tip-of-a-cell-at-a-dodecahedron-vertex", res, st)
}

fn check_neighbourhood_at(lon: f64, lat: f64, class: &str, res: i32, st: &mut Stats) -> Result<(), String> {
    let p = vec_of_lonlat(lon, lat);
    let size = contain::cell_size(res);
    let mut ids: BTreeSet<u64> = BTreeSet::new();
    let look = |v: V3| -> Result<u64, String> {
        let (lo, la) = lonlat_of_vec(v);
        a5::lonlat_to_cell(api::lonlat(lo, la.clamp(-90.0, 90.0)), res).map_err(|e| format!("lonlat_to_cell failed: {}", e))
    };
    // (a) descendants of the r-2 ancestors of the lookups of p and of 16 offsets at 1 and 2 diameters
    let mut seeds: Vec<u64> = vec![a5::lonlat_to_cell(api::lonlat(lon, lat), res).map_err(|e| format!("lonlat_to_cell failed: {}", e))?];
    for ring in [1.0, 2.0] {
        for k in 0..8 {
            let a = std::f64::consts::TAU * (k as f64 + 0.5 * (ring - 1.0)) / 8.0;
            seeds.push(look(offset_point(p, ring * size * a.cos(), ring * size * a.sin()))?);
        }
    }
    let anc_res = (res - 2).max(0);
    let mut ancestors: BTreeSet<u64> = BTreeSet::new();
    for s in &seeds {
        ancestors.insert(a5::cell_to_parent(*s, Some(anc_res)).map_err(|e| format!("cell_to_parent failed: {}", e))?);
    }
    for a in &ancestors {
        for d in a5::cell_to_children(*a, Some(res)).map_err(|e| format!("cell_to_children failed: {}", e))? {
            ids.insert(d);
        }
    }
    // (b) lookups of a 5x5 grid at 0.6-cell spacing
    for i in -2..=2 {
        for j in -2..=2 {
            ids.insert(look(offset_point(p, 0.6 * size * i as f64, 0.6 * size * j as f64))?);
        }
    }
    // prefilter by a cap built from the pentagon corners, then build rings for the near ones
    let mut infos: Vec<RingInfo> = Vec::new();
    for id in &ids {
        let c = codec::decode(*id).ok_or_else(|| format!("non-canonical candidate {:#x}", id))?;
        let corners = api::boundary_vecs(*id, 1)?;
        let mut s = [0.0; 3];
        for v in &corners {
            s = add(s, *v);
        }
        let ctr = unit(s);
        let rad = corners.iter().map(|v| ang(*v, ctr)).fold(0.0, f64::max);
        if ang(p, ctr) <= 1.6 * rad + 1e-9 {
            infos.push(contain::ring_info(*id, &c, contain::ring_subdivisions(res))?);
        }
    }
    st.add("neighbourhood:candidate-ids", ids.len() as u64);
    let t = judge(p, infos.iter())?;
    let _ = tree::parent(&Cell::WORLD);
    verdict(p, lon, lat, res, &t, class, "neighbourhood", st)
}

fn src_strategy() -> BoxedStrategy<super::c01::Src> {
    super::c01::src_strategy(gen::SEAM_POINT_WEIGHTS, 2)
}

pub fn run(tier: Tier, seed: u64) -> Report {
    let mut rep = Report::new("C03", tier, seed, RULE);
    rep.assume("a cell's point set is the region enclosed by its subdivided boundary ring; inside a ring's sagitta band the planar pentagon decides (forward projection pinned by C15)");
    let max_ex = tier.pick(3, 5);
    for res in 0..=max_ex {
        let _ = all_rings(res);
        let name = format!("exhaustive-r{}", res);
        let r = run_pbt(
            &name,
            seed,
            tier.pick(4_000, 40_000),
            || src_strategy(),
            |src, st| check_exhaustive(src, res, st),
            super::c01::src_json,
        );
        rep.exhaustive.push(format!("every point tested against all {} cells of resolution {}", codec::num_cells(res), res));
        if !rep.absorb(&name, r) {
            return rep;
        }
    }
    let r = run_pbt(
        "neighbourhood",
        seed,
        tier.pick(2_000, 40_000),
        || (src_strategy(), (max_ex + 1)..=29).boxed(),
        |(src, res), st| check_neighbourhood(src, *res, st),
        |(src, res)| json!({"src": super::c01::src_json(src), "res": res}),
    );
    if !rep.absorb("neighbourhood", r) {
        return rep;
    }
    let r = run_pbt(
        "vertex-neighbourhood",
        seed,
        tier.pick(1_000, 20_000),
        || (0u8..20, -2.0f64..2.0, -2.0f64..2.0, (max_ex + 1)..=29).boxed(),
        |(v, dx, dy, res), st| check_vertex_neighbourhood(*v, *dx, *dy, *res, st),
        |(v, dx, dy, res)| json!({"vertex": v, "dx": dx, "dy": dy, "res": res}),
    );
    rep.absorb("vertex-neighbourhood", r);
    rep
}

pub fn replay(section: &str, case: &Value) -> Option<Result<(), String>> {
    let mut st = Stats::default();
    Some(guarded(|| {
        if let Some(r) = section.strip_prefix("exhaustive-r") {
            let res: i32 = r.parse().map_err(|_| "bad section")?;
            check_exhaustive(&super::c01::src_from_json(case).ok_or("bad case")?, res, &mut st)
        } else if section == "explicit-point" {
            // hand-written regression cases: {"lon":..,"lat":..,"res":..}
            check_neighbourhood_at(case["lon"].as_f64().ok_or("bad case")?, case["lat"].as_f64().ok_or("bad case")?, "explicit", case["res"].as_i64().ok_or("bad case")? as i32, &mut st)
        } else if section == "vertex-neighbourhood" {
            check_vertex_neighbourhood(
                case["vertex"].as_u64().ok_or("bad case")? as u8,
                case["dx"].as_f64().ok_or("bad case")?,
                case["dy"].as_f64().ok_or("bad case")?,
                case["res"].as_i64().ok_or("bad case")? as i32,
                &mut st,
            )
        } else if section == "neighbourhood" {
            check_neighbourhood(&super::c01::src_from_json(&case["src"]).ok_or("bad case")?, case["res"].as_i64().ok_or("bad case")? as i32, &mut st)
        } else {
            Err(format!("unknown section {}", section))
        }
    }))
}
