//! C16 — the face projection is area-preserving at every point.

use super::c15::{R_EDGE, R_VERTEX};
use crate::api;
use crate::engine::*;
use crate::gen;
use crate::oracle::codec::{self, Cell};
use crate::oracle::geo::*;
use proptest::prelude::*;
use serde_json::{json, Value};
use std::sync::OnceLock;

const RULE: &str = "planar probe triangles (3 orientations, size 10^U(-4,-2) x rho capped at 0.05 rho and at half the distance \
to the nearest seam so that they never straddle one) centred on (a) interior points of real cells r = 2..29 and (b) \
interior points of the parts of resolution 2-6 cells that lie beyond a face edge (the reflected margin cells reach \
into), on every face. Oracle: area on the sphere of the image region (each edge subdivided 32 times before \
unprojection, independent fan integrator) / planar area == 4 pi / (12 face areas) to 1e-4. non-trivial = centre within \
0.02 of a seam, edge, vertex or face centre, or in the reflected margin; distinct by the probe's bits; bucket coverage \
(face x sector x side) in the histogram. A second section lays tiny probes (1e-7..1e-5) directly against the seams and \
face edges (gap 1e-13..1e-8, one probe edge parallel to the seam), from either side. A third section locates, by bisection on the verif hook's branch signature, the radii at which the inverse map changes numerical branch and lays probes of size 1e-8..5e-8 across them.";

pub fn area_constant() -> f64 {
    let face_area = 2.5 * R_VERTEX * R_VERTEX * (72f64).to_radians().sin();
    4.0 * std::f64::consts::PI / (12.0 * face_area)
}

#[derive(Debug, Clone)]
pub struct Case {
    pub margin: bool,
    pub cell: gen::CellSpec,
    pub margin_pick: u16,
    pub w: [f64; 5],
    pub log_h: f64,
    pub rot: f64,
    pub shape: u8,
}

fn case_json(c: &Case) -> Value {
    json!({"margin": c.margin, "cell": gen::cellspec_json(&c.cell), "margin_pick": c.margin_pick, "w": c.w, "log_h": c.log_h, "rot": c.rot, "shape": c.shape})
}
fn case_from_json(v: &Value) -> Option<Case> {
    let w = v["w"].as_array()?;
    Some(Case {
        margin: v["margin"].as_bool()?,
        cell: gen::cellspec_from_json(&v["cell"])?,
        margin_pick: v["margin_pick"].as_u64()? as u16,
        w: [w[0].as_f64()?, w[1].as_f64()?, w[2].as_f64()?, w[3].as_f64()?, w[4].as_f64()?],
        log_h: v["log_h"].as_f64()?,
        rot: v["rot"].as_f64()?,
        shape: v["shape"].as_u64()? as u8,
    })
}

/// x' = rho cos(beta): coordinate along the nearest edge normal (edge normals at 72k degrees).
fn edge_coord(q: P2) -> f64 {
    let step = std::f64::consts::TAU / 5.0;
    let g = q[1].atan2(q[0]);
    let rel = g - (g / step).round() * step;
    (q[0] * q[0] + q[1] * q[1]).sqrt() * rel.cos()
}

/// Cells of resolution 2..6 with at least one corner beyond a face edge, with that corner index.
fn margin_cells() -> &'static Vec<(Cell, usize)> {
    static M: OnceLock<Vec<(Cell, usize)>> = OnceLock::new();
    M.get_or_init(|| {
        let mut out = Vec::new();
        for res in 2..=6 {
            let n = codec::num_cells(res) as u64;
            for i in 0..n {
                let c = gen::cell_by_index(res, i);
                if let Ok(p) = api::pentagon(&c) {
                    for (k, v) in p.iter().enumerate() {
                        if edge_coord(*v) > R_EDGE + 1e-9 {
                            out.push((c, k));
                        }
                    }
                }
            }
        }
        out
    })
}

fn check_case(case: &Case, st: &mut Stats) -> Result<(), String> {
    // centre point
    let (cell, centre, in_margin_src) = if case.margin && case.margin_pick % 3 == 0 {
        // the margin next to a face *corner*: the cell found at a dodecahedron vertex (any resolution), and the
        // part of it that lies beyond a face edge
        let fr = gen::frame();
        let (vtx, _) = fr.vertices[pick_index(case.margin_pick, 20)];
        let res = case.cell.res.max(2);
        let size = (4.0 * std::f64::consts::PI / codec::num_cells(res) as f64).sqrt();
        // a point within a cell size or so of the vertex
        let q0 = offset_point(vtx, size * 1.5 * (case.w[1] - 0.5), size * 1.5 * (case.w[2] - 0.5));
        let (lon, lat) = lonlat_of_vec(q0);
        let id = a5::lonlat_to_cell(api::lonlat(lon, lat.clamp(-90.0, 90.0)), res).map_err(|e| format!("lonlat_to_cell failed: {}", e))?;
        let c = codec::decode(id).ok_or("non-canonical cell from lookup")?;
        let p = api::pentagon(&c)?;
        let beyond: Vec<usize> = (0..p.len()).filter(|&k| edge_coord(p[k]) > R_EDGE).collect();
        if beyond.is_empty() {
            st.hit("skipped:vertex-cell-has-no-corner-beyond-the-edge");
            return Ok(());
        }
        let k = beyond[(case.margin_pick as usize / 3) % beyond.len()];
        let cx = p.iter().map(|v| v[0]).sum::<f64>() / p.len() as f64;
        let cy = p.iter().map(|v| v[1]).sum::<f64>() / p.len() as f64;
        let t = 0.02 + 0.4 * case.w[0];
        let q = [p[k][0] + t * (cx - p[k][0]), p[k][1] + t * (cy - p[k][1])];
        st.hit("source:margin-of-cells-at-dodecahedron-vertices");
        (c, q, true)
    } else if case.margin {
        let m = margin_cells();
        if m.is_empty() {
            return Err("no cell of resolution 2-4 reaches beyond a face edge (margin enumeration empty)".into());
        }
        let (c, k) = m[pick_index(case.margin_pick, m.len())];
        let p = api::pentagon(&c)?;
        // a point near corner k, inside the pentagon: corner + t (centroid - corner), t small
        let cx = p.iter().map(|v| v[0]).sum::<f64>() / p.len() as f64;
        let cy = p.iter().map(|v| v[1]).sum::<f64>() / p.len() as f64;
        // from very close to the corner (the tip that reaches furthest beyond the edge) to half-way in
        let t = if case.w[3] < 0.5 { 0.02 + 0.5 * case.w[0] } else { 10f64.powf(-3.0 + 2.6 * case.w[0]) };
        let q = [p[k][0] + t * (cx - p[k][0]), p[k][1] + t * (cy - p[k][1])];
        (c, q, true)
    } else {
        let c = case.cell.cell();
        let p = api::pentagon(&c)?;
        let s: f64 = case.w.iter().take(p.len()).map(|x| x + 1e-3).sum();
        let mut q = [0.0, 0.0];
        for (i, v) in p.iter().enumerate() {
            let wi = (case.w[i] + 1e-3) / s;
            q[0] += wi * v[0];
            q[1] += wi * v[1];
        }
        (c, q, false)
    };
    let face = cell.face;
    let rho = (centre[0] * centre[0] + centre[1] * centre[1]).sqrt();
    let g = centre[1].atan2(centre[0]);
    let step36 = std::f64::consts::PI / 5.0;
    let sector = ((g / step36).floor() as i32).rem_euclid(10);
    let ray_off = (g / step36 - (g / step36).round()).abs() * step36; // angle to the nearest of the 10 rays
    let d_ray = rho * ray_off.sin();
    let ec = edge_coord(centre);
    let d_edge = (ec - R_EDGE).abs();
    let beyond = ec > R_EDGE;
    let seam = d_ray.min(d_edge);
    let mut h = 10f64.powf(case.log_h) * rho;
    h = h.min(0.05 * rho).min(0.5 * seam);
    if !(h >= 3e-8) {
        st.hit("skipped:too-close-to-a-seam-for-a-probe");
        return Ok(());
    }
    // probe triangle: three shapes (equilateral, right, slim), rotated
    let angles: [f64; 3] = match case.shape % 3 {
        0 => [0.0, 2.0943951023931953, 4.1887902047863905],
        1 => [0.0, 1.5707963267948966, 3.141592653589793],
        _ => [0.0, 0.6, 3.5],
    };
    let tri: Vec<P2> = angles.iter().map(|a| [centre[0] + h * (a + case.rot).cos(), centre[1] + h * (a + case.rot).sin()]).collect();
    // translate-first planar area
    let planar = (poly_area2(&tri) / 2.0).abs();
    if !(planar > 0.0) {
        return Ok(());
    }
    let m = 32;
    let mut ring: Vec<V3> = Vec::with_capacity(3 * m);
    for i in 0..3 {
        let a = tri[i];
        let b = tri[(i + 1) % 3];
        for j in 0..m {
            let t = j as f64 / m as f64;
            let q = [a[0] + t * (b[0] - a[0]), a[1] + t * (b[1] - a[1])];
            ring.push(api::inverse(q, face).map_err(|e| format!("inverse failed: {}", e))?);
        }
    }
    let sph = ring_area(&ring).abs();
    let ratio = sph / planar;
    let k = area_constant();
    let rel = (ratio / k - 1.0).abs();
    st.fmax("area-ratio-relative-error", rel);
    if !(rel <= 1e-4) {
        return Err(format!(
            "area ratio {:.9} instead of {:.9} (rel. error {:.3e} > 1e-4) for a probe of size {:.3e} at planar {:?} on face {} (sector {}, {} the face edge, rho {:.4})",
            ratio, k, rel, h, centre, face, sector, if beyond { "beyond" } else { "inside" }, rho
        ));
    }
    let near_vertex = ((rho - R_VERTEX).abs() < 0.02) && ray_off < 0.05;
    let nt = seam < 0.02 || rho < 0.02 || near_vertex || beyond;
    if nt {
        st.nontrivial(&(face, centre[0].to_bits(), centre[1].to_bits(), h.to_bits(), case.shape));
    }
    st.hit(&format!("bucket:f{:02}-s{}-{}", face, sector, if beyond { "margin" } else { "inside" }));
    st.hit(if beyond { "side:reflected-margin" } else { "side:inside-face" });
    st.hit(if in_margin_src { "source:margin-of-r2-6-cells" } else { "source:real-cell-interior" });
    st.hit(&format!("probe-size:1e{:+03}", h.log10().floor() as i32));
    st.sample(nt, || json!({"face": face, "centre": centre, "h": h, "sector": sector, "beyond_edge": beyond, "ratio": ratio, "expected": k, "cell": gen::cell_json(&cell)}));
    Ok(())
}

/// Tiny probes lying directly against a seam (one of the 10 rays from the face centre, or a face
/// edge from either side): one edge of the probe runs parallel to the seam at a distance of
/// 10^log_gap, the rest of it lies away from the seam. A map that squeezes or collapses a thin band
/// next to a seam moves that whole edge.
#[derive(Debug, Clone)]
pub struct SeamProbe {
    pub face: u8,
    /// 0..9: ray k*36deg; 10..14: face edge of sector pair k-10, inner side; 15..19: outer side (margin)
    pub seam: u8,
    pub along: f64,
    pub log_gap: f64,
    pub log_h: f64,
    pub left: bool,
}

fn seam_probe_json(p: &SeamProbe) -> Value {
    json!({"face": p.face, "seam": p.seam, "along": p.along, "log_gap": p.log_gap, "log_h": p.log_h, "left": p.left})
}
fn seam_probe_from_json(v: &Value) -> Option<SeamProbe> {
    Some(SeamProbe {
        face: v["face"].as_u64()? as u8,
        seam: v["seam"].as_u64()? as u8,
        along: v["along"].as_f64()?,
        log_gap: v["log_gap"].as_f64()?,
        log_h: v["log_h"].as_f64()?,
        left: v["left"].as_bool()?,
    })
}

fn check_seam_probe(p: &SeamProbe, st: &mut Stats) -> Result<(), String> {
    let h = 10f64.powf(p.log_h);
    // the lowest tenth of the range stands for "exactly on the seam"
    let gap = if p.log_gap < -12.5 { 0.0 } else { 10f64.powf(p.log_gap) };
    // seam line: point o on it, unit direction u along it, unit normal n pointing to the probe's side
    let (o, u, mut n, label) = if p.seam < 10 {
        let g = std::f64::consts::PI / 5.0 * p.seam as f64;
        let rho = if p.seam % 2 == 0 { 0.05 + (R_EDGE - 0.1) * p.along } else { 0.05 + (R_VERTEX - 0.1) * p.along };
        ([rho * g.cos(), rho * g.sin()], [g.cos(), g.sin()], [-g.sin(), g.cos()], "ray")
    } else {
        // face edge with outward normal at angle 72k degrees; along the edge within 80% of its half-length
        let k = (p.seam - 10) % 5;
        let g = std::f64::consts::TAU / 5.0 * k as f64;
        let half = R_EDGE * (std::f64::consts::PI / 5.0).tan();
        let a = (2.0 * p.along - 1.0) * 0.8 * half;
        // keep away from the edge midpoint ray and the corners
        let a = if a.abs() < 0.02 { 0.02f64.copysign(if a == 0.0 { 1.0 } else { a }) } else { a };
        ([R_EDGE * g.cos() - a * g.sin(), R_EDGE * g.sin() + a * g.cos()], [-g.sin(), g.cos()], [g.cos(), g.sin()], if p.seam < 15 { "edge-inner" } else { "edge-outer" })
    };
    if p.seam < 10 {
        if !p.left {
            n = [-n[0], -n[1]];
        }
    } else if p.seam < 15 {
        n = [-n[0], -n[1]]; // inner side of the face edge
    }
    // square-ish probe: edge parallel to the seam at distance gap, extending h away from it
    let quad: Vec<P2> = vec![
        [o[0] + n[0] * gap - u[0] * h * 0.5, o[1] + n[1] * gap - u[1] * h * 0.5],
        [o[0] + n[0] * gap + u[0] * h * 0.5, o[1] + n[1] * gap + u[1] * h * 0.5],
        [o[0] + n[0] * (gap + h) + u[0] * h * 0.5, o[1] + n[1] * (gap + h) + u[1] * h * 0.5],
        [o[0] + n[0] * (gap + h) - u[0] * h * 0.5, o[1] + n[1] * (gap + h) - u[1] * h * 0.5],
    ];
    let planar = (poly_area2(&quad) / 2.0).abs();
    let m = 16;
    let mut ring: Vec<V3> = Vec::with_capacity(4 * m);
    for i in 0..4 {
        let a = quad[i];
        let b = quad[(i + 1) % 4];
        for j in 0..m {
            let t = j as f64 / m as f64;
            ring.push(api::inverse([a[0] + t * (b[0] - a[0]), a[1] + t * (b[1] - a[1])], p.face % 12).map_err(|e| format!("inverse failed: {}", e))?);
        }
    }
    let ratio = ring_area(&ring).abs() / planar;
    let k = area_constant();
    let rel = (ratio / k - 1.0).abs();
    st.fmax("seam-probe-area-ratio-relative-error", rel);
    if !(rel <= 1e-4) {
        return Err(format!(
            "area ratio {:.9} instead of {:.9} (rel. error {:.3e} > 1e-4) for a probe of size {:.3e} lying {:.3e} from a seam ({} {}) on face {}, at planar {:?}",
            ratio, k, rel, h, gap, label, p.seam, p.face % 12, o
        ));
    }
    st.nontrivial(&(p.face, p.seam, o[0].to_bits(), p.log_gap.to_bits(), p.log_h.to_bits()));
    st.hit(&format!("seam-probe:{}", label));
    st.hit(&format!("seam-probe-gap:{}", if gap == 0.0 { "0(on the seam)".to_string() } else { format!("1e{:+03}", p.log_gap.floor() as i32) }));
    st.sample(true, || json!({"seam_probe": seam_probe_json(p), "ratio": ratio}));
    Ok(())
}

/// Probes laid across the *switch-over points* of the plane-to-sphere map: the radii at which `inverse`
/// changes numerical branch (series vs acos in `safe_acos`, early corner returns), read through the `verif` hook
/// and located by bisection along a ray from the face centre. Two branches that do not meet exactly leave a step
/// in the map that only regions straddling the switch-over can see, and ordinary sampling never lands there; the
/// probes are 1e-8..5e-8 wide (below that the rounding noise of the map itself, ~1e-15 rad, eats into the 1e-4
/// tolerance: measured 3.8e-5 at 1e-9, 1e-5 at 1e-8), so a step of a few 1e-12 rad or more shows as an area error above 1e-4.
#[derive(Debug, Clone)]
pub struct BranchProbe {
    pub face: u8,
    pub gamma: f64,
    pub log_r1: f64,
    pub log_r2: f64,
    pub log_h: f64,
    pub rot: f64,
    pub shape: u8,
}

fn branch_probe_json(p: &BranchProbe) -> Value {
    json!({"face": p.face, "gamma": p.gamma, "log_r1": p.log_r1, "log_r2": p.log_r2, "log_h": p.log_h, "rot": p.rot, "shape": p.shape})
}
fn branch_probe_from_json(v: &Value) -> Option<BranchProbe> {
    Some(BranchProbe {
        face: v["face"].as_u64()? as u8,
        gamma: v["gamma"].as_f64()?,
        log_r1: v["log_r1"].as_f64()?,
        log_r2: v["log_r2"].as_f64()?,
        log_h: v["log_h"].as_f64()?,
        rot: v["rot"].as_f64()?,
        shape: v["shape"].as_u64()? as u8,
    })
}

fn inverse_signature(q: P2, face: u8) -> Result<u32, String> {
    api::inverse(q, face).map_err(|e| format!("inverse failed: {}", e))?;
    Ok(a5::projections::polyhedral::verif_last_inverse_branches())
}

fn check_branch_probe(p: &BranchProbe, st: &mut Stats) -> Result<(), String> {
    let step36 = std::f64::consts::PI / 5.0;
    // keep the ray at least 0.05 rad away from the ten seams
    let k = (p.gamma / step36).floor();
    let within = (p.gamma / step36 - k).clamp(0.0, 1.0);
    let g = (k + 0.08 + 0.84 * within) * step36;
    let ray_off = ((g / step36) - (g / step36).round()).abs() * step36;
    let dir = [g.cos(), g.sin()];
    // stay inside the face: x' = rho cos(angle to the nearest edge normal) < R_EDGE - 0.01
    let step72 = 2.0 * step36;
    let rel = g - (g / step72).round() * step72;
    let rho_max = (R_EDGE - 0.01) / rel.cos();
    let (mut lo, mut hi) = (rho_max * 10f64.powf(p.log_r1.min(p.log_r2)), rho_max * 10f64.powf(p.log_r1.max(p.log_r2)));
    let at = |r: f64| [r * dir[0], r * dir[1]];
    let (s_lo, s_hi) = (inverse_signature(at(lo), p.face)?, inverse_signature(at(hi), p.face)?);
    if s_lo == s_hi {
        st.hit("branch:no-switch-over-between-the-two-radii");
        return Ok(());
    }
    for _ in 0..200 {
        let mid = 0.5 * (lo + hi);
        if !(mid > lo && mid < hi) {
            break;
        }
        if inverse_signature(at(mid), p.face)? == s_lo {
            lo = mid;
        } else {
            hi = mid;
        }
    }
    let rb = hi;
    let centre = at(rb);
    let d_ray = rb * ray_off.sin();
    let h = 10f64.powf(p.log_h).min(0.2 * d_ray).min(0.2 * rb);
    if !(h >= 1e-8) {
        st.hit("branch:switch-over-too-close-to-the-centre-for-a-probe");
        return Ok(());
    }
    let angles: [f64; 3] = match p.shape % 3 {
        0 => [0.0, 2.0943951023931953, 4.1887902047863905],
        1 => [0.0, 1.5707963267948966, 3.141592653589793],
        _ => [0.0, 0.6, 3.5],
    };
    // translate-first: the triangle is built relative to the centre, so its planar area is exact to rounding
    let rel_tri: Vec<P2> = angles.iter().map(|a| [h * (a + p.rot).cos(), h * (a + p.rot).sin()]).collect();
    let planar = (poly_area2(&rel_tri) / 2.0).abs();
    if !(planar > 0.0) {
        return Ok(());
    }
    let m = 32;
    let mut ring: Vec<V3> = Vec::with_capacity(3 * m);
    let mut sigs = std::collections::BTreeSet::new();
    for i in 0..3 {
        let a = rel_tri[i];
        let b = rel_tri[(i + 1) % 3];
        for j in 0..m {
            let t = j as f64 / m as f64;
            let q = [centre[0] + (a[0] + t * (b[0] - a[0])), centre[1] + (a[1] + t * (b[1] - a[1]))];
            ring.push(api::inverse(q, p.face).map_err(|e| format!("inverse failed: {}", e))?);
            sigs.insert(a5::projections::polyhedral::verif_last_inverse_branches());
        }
    }
    let sph = ring_area(&ring).abs();
    let ratio = sph / planar;
    let kc = area_constant();
    let rel_err = (ratio / kc - 1.0).abs();
    st.fmax("branch:area-ratio-relative-error", rel_err);
    if !(rel_err <= 1e-4) {
        return Err(format!(
            "area ratio {:.9} instead of {:.9} (rel. error {:.3e} > 1e-4) for a probe of size {:.3e} laid across a switch-over of the inverse map's numerical branches (signature {:#b} below radius {:e}, {:#b} above) on face {} at azimuth {:.6} rad",
            ratio, kc, rel_err, h, s_lo, rb, s_hi, p.face, g
        ));
    }
    if sigs.len() >= 2 {
        st.nontrivial(&(p.face, rb.to_bits(), g.to_bits(), h.to_bits(), p.shape));
        st.hit("branch:probe-straddles-a-switch-over");
    } else {
        st.hit("branch:probe-did-not-straddle(one signature on its outline)");
    }
    st.hit(&format!("branch:switch-over:{:#b}->{:#b}", s_lo, s_hi));
    st.hit(&format!("branch:radius:1e{:+03}", rb.log10().floor() as i32));
    st.hit(&format!("branch:probe-size:1e{:+03}", h.log10().floor() as i32));
    st.sample(sigs.len() >= 2, || json!({"face": p.face, "azimuth": g, "switch_over_radius": rb, "signatures": [s_lo, s_hi], "probe_size": h, "ratio": ratio, "expected": kc}));
    Ok(())
}

pub fn run(tier: Tier, seed: u64) -> Report {
    let mut rep = Report::new("C16", tier, seed, RULE);
    rep.assume("planar positions of real cells come from get_pentagon (pinned independently by C17); the image region's edges are sampled 32 times each");
    let nm = margin_cells().len();
    rep.extra.insert("margin_cell_corners_enumerated".into(), json!(nm));
    let r = run_pbt(
        "probes",
        seed,
        tier.pick(80_000, 2_500_000),
        || {
            (
                proptest::bool::weighted(0.35),
                gen::cell_spec(2, 29),
                any::<u16>(),
                [0.0f64..1.0, 0.0f64..1.0, 0.0f64..1.0, 0.0f64..1.0, 0.0f64..1.0],
                -4.0f64..-2.0,
                0.0f64..std::f64::consts::TAU,
                0u8..3,
            )
                .prop_map(|(margin, cell, margin_pick, w, log_h, rot, shape)| Case { margin, cell, margin_pick, w, log_h, rot, shape })
                .boxed()
        },
        check_case,
        case_json,
    );
    if !rep.absorb("probes", r) {
        return rep;
    }
    let r = run_pbt(
        "seam-probes",
        seed,
        tier.pick(20_000, 600_000),
        || {
            (0u8..12, 0u8..20, 0.0f64..1.0, -13.0f64..-8.0, -6.9f64..-5.0, any::<bool>())
                .prop_map(|(face, seam, along, log_gap, log_h, left)| SeamProbe { face, seam, along, log_gap, log_h, left })
                .boxed()
        },
        check_seam_probe,
        seam_probe_json,
    );
    if !rep.absorb("seam-probes", r) {
        return rep;
    }
    let r = run_pbt(
        "branch-boundaries",
        seed,
        tier.pick(4_000, 100_000),
        || {
            (0u8..12, 0.0f64..std::f64::consts::TAU, -7.0f64..0.0, -7.0f64..0.0, -8.0f64..-7.3, 0.0f64..std::f64::consts::TAU, 0u8..3)
                .prop_map(|(face, gamma, log_r1, log_r2, log_h, rot, shape)| BranchProbe { face, gamma, log_r1, log_r2, log_h, rot, shape })
                .boxed()
        },
        check_branch_probe,
        branch_probe_json,
    );
    rep.absorb("branch-boundaries", r);
    let buckets = rep.stats.hist.keys().filter(|k| k.starts_with("bucket:")).count();
    rep.extra.insert("buckets_hit_of_240".into(), json!(buckets));
    rep
}

pub fn replay(section: &str, case: &Value) -> Option<Result<(), String>> {
    let mut st = Stats::default();
    Some(guarded(|| match section {
        "probes" => check_case(&case_from_json(case).ok_or("bad case")?, &mut st),
        "seam-probes" => check_seam_probe(&seam_probe_from_json(case).ok_or("bad case")?, &mut st),
        "branch-boundaries" => check_branch_probe(&branch_probe_from_json(case).ok_or("bad case")?, &mut st),
        _ => Err(format!("unknown section {}", section)),
    }))
}
