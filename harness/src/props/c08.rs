//! C08 — compaction never changes the covered set of cells.

use super::sets::{self, SetScript};
use crate::engine::*;
use crate::gen;
use crate::oracle::codec::{self, Cell};
use crate::oracle::tree;
use serde_json::{json, Value};
use std::collections::BTreeSet;

const RULE: &str = "cell multisets built by a generated script: recursive subdivision and deletion from a root (world \
cell 40%, base cell, quintant, deep cell), then injection of overlapping ancestors (incl. world and base cells) and \
descendants, duplicates, and a permutation. Oracles: set model (explicit expansion to the finest input resolution \
when <= 2^17 cells; canonical form of the covered region always), no duplicates, same result set for a second \
permutation with extra duplicates. non-trivial = at least one merge happened or the input holds an overlapping \
ancestor/descendant pair; distinct by the multiset of input IDs.";

/// Largest explicit expansion (cells); the canonical-region comparison is always done. The fuzz
/// target lowers it so that a single execution stays cheap.
static MAX_EXPANSION: std::sync::atomic::AtomicU64 = std::sync::atomic::AtomicU64::new(1 << 17);
pub fn set_max_expansion(n: u64) {
    MAX_EXPANSION.store(n, std::sync::atomic::Ordering::Relaxed);
}

pub fn decode_all(ids: &[u64], what: &str) -> Result<Vec<Cell>, String> {
    ids.iter()
        .map(|&id| codec::decode(id).ok_or_else(|| format!("{} returned non-canonical ID {:#x}", what, id)))
        .collect()
}

fn fmt_ids(ids: &[u64]) -> String {
    let v: Vec<String> = ids.iter().take(40).map(|x| format!("{:x}", x)).collect();
    format!("[{}{}]", v.join(","), if ids.len() > 40 { ",…" } else { "" })
}

/// A compact call that fails (or at least exercises the error path): a complete, stride-spaced
/// sibling group of bit patterns that belong to no face, preceded by one valid cell. Whatever it
/// returns, it must not change what the next call on this thread returns.
pub fn poison_compact(seed: u64) {
    let res = 2 + (seed % 27) as i32; // 2..=28
    let stride = 1u64 << (2 * (30 - res) as u32);
    let marker = stride >> 1;
    let base = (60u64 << 58) | ((seed >> 8) & ((1u64 << 58) - 1) & !(4 * stride - 1)) | marker;
    let valid = codec::encode(&Cell { res: 1, face: (seed % 12) as u8, quintant: (seed % 5) as u8, pos: 0 });
    let ids = [valid, base, base + stride, base + 2 * stride, base + 3 * stride];
    let _ = a5::compact(&ids);
}

pub fn check_script(s: &SetScript, st: &mut Stats) -> Result<(), String> {
    if s.perm_seed % 4 == 1 {
        poison_compact(s.perm_seed >> 2);
        st.hit("failing-compact-call-first");
    }
    let b = sets::build(s);
    let input_ids: Vec<u64> = b.input.iter().map(codec::encode).collect();
    let out = a5::compact(&input_ids).map_err(|e| format!("compact({}) failed: {}", fmt_ids(&input_ids), e))?;
    let out_cells = decode_all(&out, "compact")?;

    // no duplicates
    let mut sorted = out.clone();
    sorted.sort_unstable();
    for w in sorted.windows(2) {
        if w[0] == w[1] {
            return Err(format!("compact({}) contains {:#x} twice: {}", fmt_ids(&input_ids), w[0], fmt_ids(&out)));
        }
    }
    // covered region, canonical form
    let want = tree::compact_model(&b.input);
    let got = tree::compact_model(&out_cells);
    if want != got {
        let lost: Vec<String> = want.difference(&got).take(3).map(|c| format!("{:x}", codec::encode(c))).collect();
        let invented: Vec<String> = got.difference(&want).take(3).map(|c| format!("{:x}", codec::encode(c))).collect();
        return Err(format!(
            "compact changed the covered region: input {} -> output {}; canonical regions differ (only in input: {:?}, only in output: {:?})",
            fmt_ids(&input_ids), fmt_ids(&out), lost, invented
        ));
    }
    // explicit expansion when small, also through the library's own uncompact
    let finest = b.finest;
    let total: u128 = b.input.iter().map(|c| tree::num_descendants(c, finest)).sum();
    if !b.input.is_empty() && total <= MAX_EXPANSION.load(std::sync::atomic::Ordering::Relaxed) as u128 {
        let want_x: BTreeSet<u64> = tree::expand(&b.input, finest).iter().map(codec::encode).collect();
        let got_x: BTreeSet<u64> = tree::expand(&out_cells, finest).iter().map(codec::encode).collect();
        if want_x != got_x {
            return Err(format!(
                "expansion to resolution {} differs: input {} covers {} cells, compacted {} covers {}",
                finest, fmt_ids(&input_ids), want_x.len(), fmt_ids(&out), got_x.len()
            ));
        }
        let lib_x = a5::uncompact(&out, finest).map_err(|e| format!("uncompact(compact(..), {}) failed: {}", finest, e))?;
        let lib_set: BTreeSet<u64> = lib_x.iter().copied().collect();
        if lib_set != want_x {
            return Err(format!(
                "uncompact(compact({}), {}) is not the set covered by the input ({} vs {} cells)",
                fmt_ids(&input_ids), finest, lib_set.len(), want_x.len()
            ));
        }
        st.hit("explicit-expansion");
        st.add("expanded-cells", want_x.len() as u64);
    }
    // order / multiplicity independence: reversed, rotated, with one more copy of every other element
    let mut alt: Vec<u64> = input_ids.iter().rev().copied().collect();
    let extra: Vec<u64> = input_ids.iter().step_by(2).copied().collect();
    alt.extend(extra);
    if !alt.is_empty() {
        let k = (s.perm_seed as usize) % alt.len();
        alt.rotate_left(k);
    }
    // ... and the same multiset in ascending numeric order
    let mut asc = input_ids.clone();
    asc.sort_unstable();
    let out3 = a5::compact(&asc).map_err(|e| format!("compact of the sorted input failed: {}", e))?;
    {
        let a: BTreeSet<u64> = out.iter().copied().collect();
        let c: BTreeSet<u64> = out3.iter().copied().collect();
        if a != c {
            return Err(format!(
                "compact depends on the order of the input: {} -> {} but in ascending order {} -> {}",
                fmt_ids(&input_ids), fmt_ids(&out), fmt_ids(&asc), fmt_ids(&out3)
            ));
        }
    }
    let out2 = a5::compact(&alt).map_err(|e| format!("compact of a permutation failed: {}", e))?;
    let a: BTreeSet<u64> = out.iter().copied().collect();
    let b2: BTreeSet<u64> = out2.iter().copied().collect();
    if a != b2 {
        return Err(format!(
            "compact depends on order/multiplicity: {} -> {} but permuted with duplicates {} -> {}",
            fmt_ids(&input_ids), fmt_ids(&out), fmt_ids(&alt), fmt_ids(&out2)
        ));
    }

    let distinct_in: BTreeSet<u64> = input_ids.iter().copied().collect();
    let merged = out.len() < distinct_in.len();
    let overlapping = b.input.iter().any(|c| {
        let mut x = *c;
        while let Some(p) = tree::parent(&x) {
            if b.input.contains(&p) {
                return true;
            }
            x = p;
        }
        false
    });
    let nt = merged || overlapping;
    if nt {
        let mut key: Vec<u64> = input_ids.clone();
        key.sort_unstable();
        st.nontrivial(&key);
    }
    if merged {
        st.hit("merged");
    }
    if overlapping {
        st.hit("overlapping-input");
    }
    if b.input.iter().any(|c| c.res == -1) {
        st.hit("contains-world-cell");
    }
    let coarse_faces: BTreeSet<u8> = b.input.iter().filter(|c| c.res == 0 || c.res == 1).map(|c| c.face).collect();
    if coarse_faces.len() >= 2 && b.input.iter().any(|c| c.res == 0) && b.input.iter().any(|c| c.res == 1) {
        st.hit("mixes-base-and-quintant-cells-of-several-faces");
    }
    if input_ids.len() > distinct_in.len() {
        st.hit("has-duplicates");
    }
    st.hit(&format!("root:{}", ["world", "base", "quintant", "deep"][s.root_kind as usize % 4]));
    st.hit(&format!("input-size:{}", match input_ids.len() { 0 => "0", 1..=4 => "1-4", 5..=20 => "5-20", 21..=100 => "21-100", 101..=1023 => "101-1023", 1024..=4095 => "1024-4095", _ => ">=4096" }));
    st.sample(nt, || json!({"root": gen::cell_json(&b.root), "input": input_ids.iter().take(24).map(|x| format!("{:x}", x)).collect::<Vec<_>>(), "input_len": input_ids.len(), "output": out.iter().take(24).map(|x| format!("{:x}", x)).collect::<Vec<_>>(), "injected_overlaps": b.injected_overlaps, "deleted": b.deleted}));
    Ok(())
}

/// Fixed regression shapes (the defects found in the design round), run on every tier.
fn fixed_shapes() -> Vec<(&'static str, Vec<Cell>)> {
    let base: Vec<Cell> = (0..12).map(Cell::base).collect();
    let mut v = Vec::new();
    let mut a = base.clone();
    a.push(Cell::WORLD);
    v.push(("12 base cells + world cell", a));
    let mut b = vec![Cell::base(3)];
    b.extend(tree::children(&Cell::base(3)));
    v.push(("base cell + its 5 quintants", b));
    let mut c = tree::children(&Cell::base(0));
    c.push(Cell::base(1));
    c.push(Cell::base(2));
    v.push(("quintants of face 0 + base cells 1, 2", c));
    let mut d: Vec<Cell> = Vec::new();
    for f in 0..12 {
        d.extend(tree::children(&Cell::base(f)));
    }
    v.push(("all 60 quintants", d.clone()));
    d.push(Cell::WORLD);
    v.push(("all 60 quintants + world", d));
    v
}

pub fn check_cells(cells: &[Cell], st: &mut Stats) -> Result<(), String> {
    let ids: Vec<u64> = cells.iter().map(codec::encode).collect();
    let out = a5::compact(&ids).map_err(|e| format!("compact failed: {}", e))?;
    let mut sorted = out.clone();
    sorted.sort_unstable();
    for w in sorted.windows(2) {
        if w[0] == w[1] {
            return Err(format!("compact({}) contains {:#x} twice: {}", fmt_ids(&ids), w[0], fmt_ids(&out)));
        }
    }
    let oc = decode_all(&out, "compact")?;
    if tree::compact_model(cells) != tree::compact_model(&oc) {
        return Err(format!("compact changed the covered region: {} -> {}", fmt_ids(&ids), fmt_ids(&out)));
    }
    st.nontrivial(&ids);
    Ok(())
}

pub fn run(tier: Tier, seed: u64) -> Report {
    let mut rep = Report::new("C08", tier, seed, RULE);
    rep.assume("the set model (oracle/tree.rs) defines the covered region; IDs are produced by the independent encoder");
    let shapes = fixed_shapes();
    let r = run_exhaustive(
        "fixed-shapes",
        shapes.len() as u64,
        |i, st| check_cells(&shapes[i as usize].1, st),
        |i| json!({"shape": shapes[i as usize].0, "cells": shapes[i as usize].1.iter().map(gen::cell_json).collect::<Vec<_>>()}),
    );
    if std::env::var("A5VERIF_SKIP_FIXED").is_err() && !rep.absorb("fixed-shapes", r) {
        return rep;
    }
    let r = run_pbt(
        "scripts",
        seed,
        tier.pick(3_000, 100_000),
        || proptest::strategy::Strategy::boxed(sets::script(40, true)),
        check_script,
        sets::script_json,
    );
    rep.absorb("scripts", r);
    rep
}

pub fn replay(section: &str, case: &Value) -> Option<Result<(), String>> {
    let mut st = Stats::default();
    Some(guarded(|| match section {
        "scripts" => check_script(&sets::script_from_json(case).ok_or("bad case")?, &mut st),
        "fixed-shapes" | "cells" => {
            let cells: Vec<Cell> = case["cells"].as_array().ok_or("bad case")?.iter().filter_map(gen::cell_from_json).collect();
            check_cells(&cells, &mut st)
        }
        _ => Err(format!("unknown section {}", section)),
    }))
}
