//! C17 — within a quintant the curve position <-> cell mapping is a bijection.

use crate::engine::*;
use crate::gen;
use crate::oracle::geo::*;
use a5::coordinate_systems::Face;
use a5::core::coordinate_transforms::face_to_ij;
use a5::core::hilbert::{ij_to_s, s_to_anchor, Orientation};
use a5::core::tiling::get_pentagon_vertices;
use proptest::prelude::*;
use serde_json::{json, Value};
use std::collections::HashSet;

const RULE: &str = "positions s < 4^n: exhaustive for the low depths x all 6 orientations (with a hash set of pentagon centres \
for pairwise distinctness), and for n up to 29 the position classes (zero, max, digit patterns, block boundaries, \
uniform). Oracles: centre of the pentagon at s strictly inside the quintant triangle (barycentric signs), locating \
the centre returns s, the pentagon contains its centre, centres pairwise distinct. non-trivial = n >= 2 and the \
digits of s are not all equal (the walk changes flip state / may shift digits); distinct by (n, orientation, s). The same positions are also placed in quintants 1..4 (rotated back by the harness), and \
the cells containing points of the face plane's coordinate axes are checked in their own quintant.";

pub const ORIENTATIONS: [Orientation; 6] = [Orientation::UV, Orientation::VU, Orientation::UW, Orientation::WU, Orientation::VW, Orientation::WV];

fn triangle() -> [P2; 3] {
    let u = a5::core::pentagon::u();
    let v = a5::core::pentagon::v();
    let w = a5::core::pentagon::w();
    [[u.x(), u.y()], [v.x(), v.y()], [w.x(), w.y()]]
}

fn bary(t: &[P2; 3], p: P2) -> [f64; 3] {
    let d = (t[1][1] - t[2][1]) * (t[0][0] - t[2][0]) + (t[2][0] - t[1][0]) * (t[0][1] - t[2][1]);
    let a = ((t[1][1] - t[2][1]) * (p[0] - t[2][0]) + (t[2][0] - t[1][0]) * (p[1] - t[2][1])) / d;
    let b = ((t[2][1] - t[0][1]) * (p[0] - t[2][0]) + (t[0][0] - t[2][0]) * (p[1] - t[2][1])) / d;
    [a, b, 1.0 - a - b]
}

/// Returns the pentagon centre (in units of the depth-n lattice, i.e. scaled by 2^n).
pub fn check_position(n: usize, o: usize, s: u64, st: &mut Stats) -> Result<P2, String> {
    check_position_in(n, o, s, 0, st)
}

/// The same for the pentagon placed in quintant `q`: the harness rotates it back by -72q degrees
/// (its own rotation) before judging it in the quintant-0 frame.
pub fn check_position_in(n: usize, o: usize, s: u64, q: usize, st: &mut Stats) -> Result<P2, String> {
    let orient = ORIENTATIONS[o];
    let anchor = s_to_anchor(s, n, orient);
    let shape = get_pentagon_vertices(n as i32, q % 5, &anchor);
    let a = -(std::f64::consts::TAU / 5.0) * (q % 5) as f64;
    let (ca, sa) = (a.cos(), a.sin());
    let vs: Vec<P2> = shape.get_vertices_vec().iter().map(|f| [ca * f.x() - sa * f.y(), sa * f.x() + ca * f.y()]).collect();
    if vs.len() != 5 {
        return Err(format!("pentagon at n={}, {:?}, s={} has {} vertices", n, orient, s, vs.len()));
    }
    let c = [vs.iter().map(|v| v[0]).sum::<f64>() / 5.0, vs.iter().map(|v| v[1]).sum::<f64>() / 5.0];
    let scale = (1u64 << n) as f64;
    // (ii) inside the quintant triangle
    let b = bary(&triangle(), c);
    let mn = b[0].min(b[1]).min(b[2]);
    st.fmax("neg-min-barycentric-margin-x-2^(n-1)", -(mn * scale / 2.0));
    if !(mn > 0.0) {
        return Err(format!(
            "n={}, {:?}, s={}: pentagon centre {:?} is not strictly inside the quintant triangle (barycentrics {:?})",
            n, orient, s, c, b
        ));
    }
    // (iv) contains its own centre
    let sd = convex_signed_dist(&vs, c);
    if !(sd > 0.0) {
        return Err(format!("n={}, {:?}, s={}: pentagon does not contain its own centre (signed distance {:e})", n, orient, s, sd));
    }
    // (iii) locating the centre returns s
    let ij = face_to_ij(Face::new(c[0] * scale, c[1] * scale));
    let back = ij_to_s(ij, n, orient);
    if back != s {
        return Err(format!("n={}, {:?}: locating the centre of the pentagon at position {} returns position {}", n, orient, s, back));
    }
    // non-trivial: digits not all equal
    let d0 = s & 3;
    let mut all_eq = true;
    for i in 1..n {
        if (s >> (2 * i)) & 3 != d0 {
            all_eq = false;
            break;
        }
    }
    if n >= 2 && !all_eq {
        st.nontrivial(&(n, o, s));
    }
    Ok([c[0] * scale, c[1] * scale])
}

fn check_exhaustive_block(n: usize, o: usize, st: &mut Stats) -> Result<(), String> {
    let total = 1u64 << (2 * n);
    let mut seen: HashSet<(i64, i64)> = HashSet::with_capacity(total as usize);
    for s in 0..total {
        st.eval();
        let c = check_position(n, o, s, st)?;
        // centres rounded at 1e-3 cell sizes
        let key = ((c[0] * 1000.0).round() as i64, (c[1] * 1000.0).round() as i64);
        if !seen.insert(key) {
            return Err(format!("n={}, {:?}: position {} lands on a pentagon already used by another position (centre {:?})", n, ORIENTATIONS[o], s, c));
        }
    }
    if seen.len() as u64 != total {
        return Err(format!("n={}, {:?}: {} distinct pentagons for {} positions", n, ORIENTATIONS[o], seen.len(), total));
    }
    Ok(())
}

/// Cells that contain a point of one of the face plane's coordinate axes (where one planar
/// coordinate is tiny relative to the other), in the quintant the point falls in.
fn check_axis_cell(n: usize, o: usize, axis: u8, t: f64, st: &mut Stats) -> Result<(), String> {
    let r = 0.02 + 0.74 * t; // inside the face pentagon along the axis direction, short of the edge
    let ang = std::f64::consts::FRAC_PI_2 * (axis % 4) as f64;
    let p = [r * ang.cos(), r * ang.sin()];
    // quintant by the library's own rule (rounding gamma / 72deg), then rotate back with the harness's rotation
    let gamma = p[1].atan2(p[0]);
    let q = ((gamma / (std::f64::consts::TAU / 5.0)).round() as i64).rem_euclid(5) as usize;
    let a = -(std::f64::consts::TAU / 5.0) * q as f64;
    let p0 = [a.cos() * p[0] - a.sin() * p[1], a.sin() * p[0] + a.cos() * p[1]];
    // keep to the quintant triangle (the axis may leave it near the face edge)
    let b = bary(&triangle(), p0);
    if b[0].min(b[1]).min(b[2]) <= 0.0 {
        return Ok(());
    }
    let scale = (1u64 << n) as f64;
    let s = ij_to_s(face_to_ij(Face::new(p0[0] * scale, p0[1] * scale)), n, ORIENTATIONS[o]);
    if s >> (2 * n) != 0 {
        return Ok(());
    }
    check_position_in(n, o, s, q, st)?;
    st.hit(&format!("axis-cell:quintant{}", q));
    Ok(())
}

pub fn run(tier: Tier, seed: u64) -> Report {
    let mut rep = Report::new("C17", tier, seed, RULE);
    rep.assume("pentagon centre = mean of the five reported vertices; quintant triangle = (u, v, w) of core::pentagon");
    let max_n = tier.pick(8usize, 10usize);
    // blocks ordered so that the big ones are spread over the workers
    let mut blocks: Vec<(usize, usize)> = Vec::new();
    for n in (1..=max_n).rev() {
        for o in 0..6 {
            blocks.push((n, o));
        }
    }
    // interleave: worker w takes blocks w, w+16, ... -> use run_pbt-like manual threading through run_exhaustive on a permuted index
    let nb = blocks.len() as u64;
    let w = WORKERS as u64;
    let chunk = nb.div_ceil(w);
    let perm: Vec<usize> = (0..nb).map(|i| { let worker = i / chunk; let k = i % chunk; (k * w + worker) as usize }).collect();
    let r = run_exhaustive(
        "exhaustive",
        nb,
        |i, st| {
            let j = perm[i as usize];
            if j >= blocks.len() {
                return Ok(());
            }
            let (n, o) = blocks[j];
            check_exhaustive_block(n, o, st)
        },
        |i| { let j = perm[i as usize].min(blocks.len() - 1); json!({"n": blocks[j].0, "orientation": blocks[j].1}) },
    );
    rep.exhaustive.push(format!("all positions s < 4^n for n = 1..{} x 6 orientations, incl. pairwise distinct centres", max_n));
    if !rep.absorb("exhaustive", r) {
        return rep;
    }
    let r = run_pbt(
        "deep",
        seed,
        tier.pick(200_000, 6_000_000),
        || (1usize..=29, 0usize..6, 0u8..9, any::<u64>(), 0u8..32).boxed(),
        |(n, o, class, raw, k), st| {
            let s = gen::make_pos(*class, *raw, *k, *n as u32);
            st.hit(&format!("depth:{:02}", n));
            st.hit(&format!("pos-class:{}", gen::POS_CLASSES[*class as usize % 9]));
            let c = check_position(*n, *o, s, st)?;
            st.sample(*n >= 2, || json!({"n": n, "orientation": format!("{:?}", ORIENTATIONS[*o]), "s": s, "centre_lattice_units": c}));
            Ok(())
        },
        |(n, o, class, raw, k)| json!({"n": n, "o": o, "class": class, "raw": raw, "k": k}),
    );
    if !rep.absorb("deep", r) {
        return rep;
    }
    // the same positions placed in the other quintants (the library rotates the pentagon; the harness rotates back)
    let r = run_pbt(
        "deep-quintants",
        seed,
        tier.pick(100_000, 3_000_000),
        || (1usize..=29, 0usize..6, 0u8..9, any::<u64>(), 0u8..32, 1usize..5).boxed(),
        |(n, o, class, raw, k, q), st| {
            let s = gen::make_pos(*class, *raw, *k, *n as u32);
            check_position_in(*n, *o, s, *q, st).map(|_| ())
        },
        |(n, o, class, raw, k, q)| json!({"n": n, "o": o, "class": class, "raw": raw, "k": k, "q": q}),
    );
    if !rep.absorb("deep-quintants", r) {
        return rep;
    }
    let r = run_pbt(
        "axis-cells",
        seed,
        tier.pick(100_000, 3_000_000),
        || (prop_oneof![1 => 1usize..=29, 2 => 26usize..=29], 0usize..6, 0u8..4, 0.0f64..1.0).boxed(),
        |(n, o, axis, t), st| check_axis_cell(*n, *o, *axis, *t, st),
        |(n, o, axis, t)| json!({"n": n, "o": o, "axis": axis, "t": t}),
    );
    rep.absorb("axis-cells", r);
    rep
}

pub fn replay(section: &str, case: &Value) -> Option<Result<(), String>> {
    let mut st = Stats::default();
    Some(guarded(|| match section {
        "exhaustive" => check_exhaustive_block(case["n"].as_u64().ok_or("bad case")? as usize, case["orientation"].as_u64().ok_or("bad case")? as usize, &mut st),
        "deep-quintants" => {
            let n = case["n"].as_u64().ok_or("bad case")? as usize;
            let s = gen::make_pos(case["class"].as_u64().ok_or("bad case")? as u8, case["raw"].as_u64().ok_or("bad case")?, case["k"].as_u64().ok_or("bad case")? as u8, n as u32);
            check_position_in(n, case["o"].as_u64().ok_or("bad case")? as usize, s, case["q"].as_u64().ok_or("bad case")? as usize, &mut st).map(|_| ())
        }
        "axis-cells" => check_axis_cell(case["n"].as_u64().ok_or("bad case")? as usize, case["o"].as_u64().ok_or("bad case")? as usize, case["axis"].as_u64().ok_or("bad case")? as u8, case["t"].as_f64().ok_or("bad case")?, &mut st),
        "deep" => {
            let n = case["n"].as_u64().ok_or("bad case")? as usize;
            let s = gen::make_pos(case["class"].as_u64().ok_or("bad case")? as u8, case["raw"].as_u64().ok_or("bad case")?, case["k"].as_u64().ok_or("bad case")? as u8, n as u32);
            check_position(n, case["o"].as_u64().ok_or("bad case")? as usize, s, &mut st).map(|_| ())
        }
        _ => Err(format!("unknown section {}", section)),
    }))
}
