//! C20 — numeric ID order is compatible with the hierarchy from the quintant level down.

use crate::engine::*;
use crate::gen;
use crate::oracle::codec::{self, Cell};
use crate::oracle::tree;
use proptest::prelude::*;
use serde_json::{json, Value};

const RULE: &str = "pairs of same-resolution cells r in 2..29 (uniform, adjacent positions, positions differing at one \
chosen level, other quintant, other face) compared as integers at every ancestor level 1..r and descendant depth \
<= 4; single cells r >= 1 with their full-depth ID interval against generated intruders (ancestors, ID-adjacent \
cousins, random cells) and insiders. non-trivial = the pair's lowest common ancestor is >= 2 levels above the \
cells but below the quintant level (order decided inside the curve digits), or the intruder is within 4 strides \
of the interval; distinct by the IDs involved.";

#[derive(Debug, Clone)]
pub struct PairCase {
    pub a: gen::CellSpec,
    pub rel: u8,
    pub raw: u64,
    pub k: u8,
    pub depth: u8,
}

fn pair_json(c: &PairCase) -> Value {
    json!({"a": gen::cellspec_json(&c.a), "rel": c.rel, "raw": c.raw, "k": c.k, "depth": c.depth})
}
fn pair_from_json(v: &Value) -> Option<PairCase> {
    Some(PairCase {
        a: gen::cellspec_from_json(&v["a"])?,
        rel: v["rel"].as_u64()? as u8,
        raw: v["raw"].as_u64()?,
        k: v["k"].as_u64()? as u8,
        depth: v["depth"].as_u64()? as u8,
    })
}

fn partner(a: &Cell, rel: u8, raw: u64, k: u8) -> Cell {
    let levels = (a.res - 1) as u32;
    let mask = (1u64 << (2 * levels)) - 1;
    let mut b = *a;
    match rel % 6 {
        0 => {
            b.face = (raw % 12) as u8;
            b.quintant = ((raw >> 8) % 5) as u8;
            b.pos = (raw >> 16).wrapping_mul(0x9E3779B97F4A7C15) & mask;
        }
        1 => b.pos = if a.pos < mask { a.pos + 1 } else { a.pos - 1 },
        2 => b.pos = if a.pos > 0 { a.pos - 1 } else { a.pos + 1 },
        3 => {
            // differ in exactly one digit at level k
            let k = (k as u32) % levels;
            let d = ((raw % 3) + 1) << (2 * k);
            b.pos = a.pos ^ d;
        }
        4 => b.quintant = (a.quintant + 1 + (raw % 4) as u8) % 5,
        _ => b.face = (a.face + 1 + (raw % 11) as u8) % 12,
    }
    b
}

fn parent_at(id: u64, l: i32) -> Result<u64, String> {
    a5::cell_to_parent(id, Some(l)).map_err(|e| format!("cell_to_parent({:#x}, {}) failed: {}", id, l, e))
}
fn kids_at(id: u64, l: i32) -> Result<Vec<u64>, String> {
    a5::cell_to_children(id, Some(l)).map_err(|e| format!("cell_to_children({:#x}, {}) failed: {}", id, l, e))
}

fn check_pair(case: &PairCase, st: &mut Stats) -> Result<(), String> {
    let ca = case.a.cell();
    let cb = partner(&ca, case.rel, case.raw, case.k);
    if ca == cb {
        return Ok(());
    }
    let (mut a, mut b) = (codec::encode(&ca), codec::encode(&cb));
    let (mut ca, mut cb) = (ca, cb);
    if a > b {
        std::mem::swap(&mut a, &mut b);
        std::mem::swap(&mut ca, &mut cb);
    }
    let r = ca.res;
    // every ancestor level 1..r
    let mut lca = 0; // deepest level at which the ancestors coincide (0 = none from level 1 up)
    for l in 1..=r {
        let pa = parent_at(a, l)?;
        let pb = parent_at(b, l)?;
        if pa > pb {
            return Err(format!(
                "{:#x} < {:#x} but their ancestors at resolution {} are ordered the other way: {:#x} > {:#x}",
                a, b, l, pa, pb
            ));
        }
        if pa == pb {
            lca = l;
        }
        // the library's ancestor must be the model's (ties the integer claim to the real tree)
        if pa != codec::encode(&tree::ancestor(&ca, l)) {
            return Err(format!("cell_to_parent({:#x}, {}) = {:#x} is not the model ancestor", a, l, pa));
        }
    }
    // descendants
    let depth = 1 + (case.depth as i32 % 4);
    let t = (r + depth).min(29);
    if t > r {
        let ka = kids_at(a, t)?;
        let kb = kids_at(b, t)?;
        let max_a = *ka.iter().max().unwrap();
        let min_b = *kb.iter().min().unwrap();
        if max_a >= min_b {
            return Err(format!(
                "{:#x} < {:#x} but a descendant of the first at resolution {} ({:#x}) does not precede a descendant of the second ({:#x})",
                a, b, t, max_a, min_b
            ));
        }
    }
    let nt = lca >= 1 && r - lca >= 2;
    if nt {
        st.nontrivial(&(a, b));
    }
    st.hit(&format!("rel:{}", ["uniform", "next", "prev", "one-digit", "other-quintant", "other-face"][case.rel as usize % 6]));
    st.hit(&format!("lca-depth-below:{}", if lca == 0 { "none".to_string() } else { format!("{:02}", r - lca) }));
    st.sample(nt, || json!({"a": format!("{:x}", a), "b": format!("{:x}", b), "res": r, "lca_level": lca, "descendant_level": t}));
    Ok(())
}

#[derive(Debug, Clone)]
pub struct IntervalCase {
    pub c: gen::CellSpec,
    pub kind: u8,
    pub x: gen::CellSpec,
    pub raw: u64,
    pub depth: u8,
}

fn interval_json(c: &IntervalCase) -> Value {
    json!({"c": gen::cellspec_json(&c.c), "kind": c.kind, "x": gen::cellspec_json(&c.x), "raw": c.raw, "depth": c.depth})
}
fn interval_from_json(v: &Value) -> Option<IntervalCase> {
    Some(IntervalCase {
        c: gen::cellspec_from_json(&v["c"])?,
        kind: v["kind"].as_u64()? as u8,
        x: gen::cellspec_from_json(&v["x"])?,
        raw: v["raw"].as_u64()?,
        depth: v["depth"].as_u64()? as u8,
    })
}

/// Stride between same-resolution IDs of consecutive positions, from the documented layout.
fn stride(res: i32) -> u64 {
    if res <= 1 {
        1u64 << 58
    } else {
        1u64 << (58 - 2 * (res - 1))
    }
}

fn check_interval(case: &IntervalCase, st: &mut Stats) -> Result<(), String> {
    let c = case.c.cell(); // res >= 1
    let id = codec::encode(&c);
    // full-depth interval through the library: chain of smallest / largest children down to 29
    let (mut lo, mut hi) = (id, id);
    let mut all_lo = id;
    let mut all_hi = id;
    for l in (c.res + 1)..=29 {
        let kl = kids_at(lo, l)?;
        let kh = kids_at(hi, l)?;
        lo = *kl.iter().min().unwrap();
        hi = *kh.iter().max().unwrap();
        all_lo = all_lo.min(lo);
        all_hi = all_hi.max(hi);
    }
    // independent statement of the same interval
    let deep = 29 - c.res;
    let want_lo = codec::encode(&Cell { res: 29, face: c.face, quintant: c.quintant, pos: c.pos << (2 * deep) });
    let want_hi = codec::encode(&Cell {
        res: 29,
        face: c.face,
        quintant: c.quintant,
        pos: (c.pos << (2 * deep)) | ((1u64 << (2 * deep)) - 1),
    });
    if c.res < 29 && (all_lo != want_lo || all_hi != want_hi) {
        return Err(format!(
            "subtree of {:#x}: extreme descendants via children are [{:#x}, {:#x}], layout says [{:#x}, {:#x}]",
            id, all_lo, all_hi, want_lo, want_hi
        ));
    }
    if !(all_lo <= id && id <= all_hi) {
        return Err(format!("{:#x} lies outside the ID interval of its own subtree [{:#x}, {:#x}]", id, all_lo, all_hi));
    }
    // a complete level of descendants lies inside and siblings are stride-adjacent
    let depth = 1 + (case.depth as i32 % 4);
    let t = (c.res + depth).min(29);
    if t > c.res {
        let mut ks = kids_at(id, t)?;
        ks.sort_unstable();
        for w in ks.windows(2) {
            if w[1] - w[0] != stride(t) {
                return Err(format!(
                    "descendants of {:#x} at resolution {} are not consecutive same-resolution IDs: {:#x} then {:#x} (stride {:#x})",
                    id, t, w[0], w[1], stride(t)
                ));
            }
        }
        if ks[0] < all_lo || *ks.last().unwrap() > all_hi {
            return Err(format!("descendants of {:#x} at resolution {} leave its interval", id, t));
        }
    }
    // intruder / insider
    let x = match case.kind % 5 {
        0 => case.x.cell(), // random cell (res >= 1)
        1 => {
            // an ancestor of c at resolution >= 1 (or c's sibling if none)
            if c.res >= 2 {
                tree::ancestor(&c, 1 + (case.raw % (c.res as u64 - 1)) as i32)
            } else {
                Cell { quintant: (c.quintant + 1) % 5, ..c }
            }
        }
        2 | 3 => {
            // ID-adjacent cousin: same resolution as some descendant level, position just outside
            let l = (c.res + (case.raw % 5) as i32).min(29).max(2);
            let d = (l - c.res).max(0);
            let levels = (l - 1) as u32;
            let mask = (1u64 << (2 * levels)) - 1;
            let first = if c.res >= 2 { c.pos << (2 * d) } else { 0 };
            let last = if c.res >= 2 { first | ((1u64 << (2 * d)) - 1) } else { mask };
            let off = 1 + (case.raw >> 8) % 4;
            let pos = if case.kind % 5 == 2 { first.wrapping_sub(off) } else { last.wrapping_add(off) };
            if pos > mask || c.res < 2 {
                // wrapped out of the quintant: use the neighbouring quintant's end instead
                Cell { res: l, face: c.face, quintant: (c.quintant + 1) % 5, pos: if case.kind % 5 == 2 { mask } else { 0 } }
            } else {
                Cell { res: l, face: c.face, quintant: c.quintant, pos }
            }
        }
        _ => {
            // insider: a descendant at a random depth
            let l = (c.res + (case.raw % 28) as i32).min(29);
            let d = l - c.res;
            let extra = if d == 0 { 0 } else { (case.raw >> 8) & ((1u64 << (2 * d)) - 1) };
            if l == 1 {
                c
            } else {
                Cell { res: l, face: c.face, quintant: c.quintant, pos: (if c.res >= 2 { c.pos << (2 * d) } else { 0 }) | extra }
            }
        }
    };
    if !x.is_valid() || x.res < 1 {
        return Ok(());
    }
    let xid = codec::encode(&x);
    let inside_tree = tree::is_ancestor_or_equal(&c, &x);
    let inside_interval = all_lo <= xid && xid <= all_hi;
    if inside_tree != inside_interval {
        return Err(format!(
            "cell {:#x} (res {}) is {} the subtree of {:#x} (res {}) but {} its ID interval [{:#x}, {:#x}]",
            xid,
            x.res,
            if inside_tree { "in" } else { "outside" },
            id,
            c.res,
            if inside_interval { "inside" } else { "outside" },
            all_lo,
            all_hi
        ));
    }
    let near = !inside_tree
        && (xid.abs_diff(all_lo) <= 4 * stride(x.res.max(c.res)) || xid.abs_diff(all_hi) <= 4 * stride(x.res.max(c.res)));
    if near {
        st.nontrivial(&(id, xid));
    }
    st.hit(&format!("intruder-kind:{}", ["random", "ancestor", "cousin-before", "cousin-after", "insider"][case.kind as usize % 5]));
    st.hit(if inside_tree { "x-in-subtree" } else { "x-outside-subtree" });
    st.sample(near, || json!({"cell": format!("{:x}", id), "res": c.res, "interval": [format!("{:x}", all_lo), format!("{:x}", all_hi)], "x": format!("{:x}", xid), "x_res": x.res, "x_in_subtree": inside_tree}));
    Ok(())
}

/// The stated exemption, witnessed: base-cell IDs interleave with quintant IDs of other faces.
fn exemption_witness() -> Result<Value, String> {
    let b1 = codec::encode(&Cell::base(1));
    let q: Vec<u64> = a5::cell_to_children(codec::encode(&Cell::base(0)), Some(1))?;
    let mut q = q;
    q.sort_unstable();
    let below = q.iter().filter(|&&x| x < b1).count();
    if below == 0 || below == q.len() {
        return Err(format!("expected base cell {:#x} of face 1 to lie between quintant IDs of face 0 {:x?}", b1, q));
    }
    Ok(json!({"base_cell_face_1": format!("{:x}", b1), "quintants_of_face_0": q.iter().map(|x| format!("{:x}", x)).collect::<Vec<_>>(), "quintants_below": below}))
}

/// Exhaustive sweep of one whole resolution: sort all cell IDs; along the sorted sequence the
/// ancestors at every level 1..r must be non-decreasing (which is the pairwise claim for a total
/// order), and all children of a cell must precede all children of the next cell.
fn sweep_resolution(res: i32, st: &mut Stats) -> Result<(), String> {
    let n = codec::num_cells(res) as u64;
    let mut ids: Vec<u64> = (0..n).map(|i| codec::encode(&crate::gen::cell_by_index(res, i))).collect();
    ids.sort_unstable();
    let mut prev_anc: Vec<u64> = Vec::new();
    let mut prev_max_child: Option<u64> = None;
    for (k, &id) in ids.iter().enumerate() {
        st.eval();
        let mut anc = Vec::with_capacity(res as usize);
        for l in 1..=res {
            anc.push(parent_at(id, l)?);
        }
        if k > 0 {
            for (li, (a, b)) in prev_anc.iter().zip(anc.iter()).enumerate() {
                if a > b {
                    return Err(format!(
                        "resolution {}: {:#x} < {:#x} but their ancestors at resolution {} are ordered the other way ({:#x} > {:#x})",
                        res, ids[k - 1], id, li + 1, a, b
                    ));
                }
            }
        }
        if res < 29 {
            let kids = kids_at(id, res + 1)?;
            let mn = *kids.iter().min().unwrap();
            let mx = *kids.iter().max().unwrap();
            if let Some(pm) = prev_max_child {
                if pm >= mn {
                    return Err(format!("resolution {}: children of {:#x} do not all precede the children of {:#x}", res, ids[k - 1], id));
                }
            }
            prev_max_child = Some(mx);
        }
        prev_anc = anc;
        if k % 4 == 1 {
            st.nontrivial(&id);
        }
    }
    Ok(())
}

pub fn run(tier: Tier, seed: u64) -> Report {
    let mut rep = Report::new("C20", tier, seed, RULE);
    {
        let max_sweep = tier.pick(8, 10);
        let r = run_exhaustive("sweep", (max_sweep - 1) as u64, |i, st| sweep_resolution(2 + i as i32, st), |i| json!({"res": 2 + i}));
        rep.exhaustive.push(format!("every cell of resolutions 2..{} in ID order: ancestors at all levels non-decreasing, children blocks disjoint and ordered", max_sweep));
        if !rep.absorb("sweep", r) {
            return rep;
        }
    }
    rep.assume("ancestry is judged by the set model; IDs are the library's own outputs compared as integers");
    match exemption_witness() {
        Ok(v) => {
            rep.extra.insert("base_cell_exemption_witness".into(), v);
        }
        Err(m) => {
            rep.violation = Some(Violation { section: "exemption".into(), case: json!({}), message: m, preceding: Vec::new() });
            return rep;
        }
    }
    let r = run_pbt(
        "pairs",
        seed,
        tier.pick(200_000, 6_000_000),
        || {
            (gen::cell_spec(2, 29), 0u8..6, any::<u64>(), 0u8..32, 0u8..4)
                .prop_map(|(a, rel, raw, k, depth)| PairCase { a, rel, raw, k, depth })
                .boxed()
        },
        check_pair,
        pair_json,
    );
    if !rep.absorb("pairs", r) {
        return rep;
    }
    let r = run_pbt(
        "intervals",
        seed,
        tier.pick(100_000, 3_000_000),
        || {
            (gen::cell_spec(1, 29), 0u8..5, gen::cell_spec(1, 29), any::<u64>(), 0u8..4)
                .prop_map(|(c, kind, x, raw, depth)| IntervalCase { c, kind, x, raw, depth })
                .boxed()
        },
        check_interval,
        interval_json,
    );
    rep.absorb("intervals", r);
    rep
}

pub fn replay(section: &str, case: &Value) -> Option<Result<(), String>> {
    let mut st = Stats::default();
    Some(guarded(|| match section {
        "pairs" => check_pair(&pair_from_json(case).ok_or("bad case")?, &mut st),
        "intervals" => check_interval(&interval_from_json(case).ok_or("bad case")?, &mut st),
        "exemption" => exemption_witness().map(|_| ()),
        "sweep" => sweep_resolution(case["res"].as_i64().ok_or("bad case")? as i32, &mut st),
        _ => Err(format!("unknown section {}", section)),
    }))
}
