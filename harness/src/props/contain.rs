//! Containment oracles shared by C01, C02, C03, C06 (DESIGN.md §3.6/§3.7). Neither uses the
//! library's own point-in-cell test.

use crate::api;
use crate::oracle::codec::{self, Cell};
use crate::oracle::geo::*;

/// Edge band in the face plane (about 1e-12 rad): containment is asserted for signed distance
/// >= -BAND; "strictly interior" means >= STRICT.
pub const BAND: f64 = 1.5e-12;
pub const STRICT: f64 = 2.0e-12;

pub fn ring_subdivisions(res: i32) -> i32 {
    if res <= 10 {
        64
    } else {
        16
    }
}

pub struct RingInfo {
    pub id: u64,
    pub cell: Cell,
    /// ring with 2n subdivisions per edge
    pub ring: Vec<V3>,
    /// 2 x sagitta of the n-subdivision ring + 1e-12: points closer to the polyline are undecided
    pub band: f64,
    pub centre: V3,
    /// bounding cap radius (max angle centre -> ring point), with margin
    pub cap: f64,
}

pub fn ring_info(id: u64, cell: &Cell, n: i32) -> Result<RingInfo, String> {
    let ring = api::boundary_vecs(id, 2 * n)?;
    let band = 2.0 * sagitta(&ring) + 1e-12;
    let mut s = [0.0; 3];
    for v in &ring {
        s = add(s, *v);
    }
    let centre = unit(s);
    let cap = ring.iter().map(|v| ang(*v, centre)).fold(0.0, f64::max) * 1.02 + 1e-9;
    Ok(RingInfo { id, cell: *cell, ring, band, centre, cap })
}

#[derive(Debug, Clone, Copy, PartialEq)]
pub enum RingVerdict {
    Inside,
    Outside,
    Band,
}

impl RingInfo {
    pub fn test(&self, p: V3) -> (RingVerdict, RingTest) {
        if ang(p, self.centre) > self.cap + self.band {
            return (RingVerdict::Outside, RingTest { winding: 0, dist: f64::INFINITY, visible: false });
        }
        let t = ring_test(&self.ring, p);
        if !t.visible {
            return (RingVerdict::Outside, t);
        }
        if t.dist <= self.band {
            (RingVerdict::Band, t)
        } else if t.winding != 0 {
            (RingVerdict::Inside, t)
        } else {
            (RingVerdict::Outside, t)
        }
    }
}

/// Signed distance (face-plane units ~ radians) of sphere point p to the cell's planar pentagon,
/// positive inside. Uses the library's forward projection (pinned by C15) and pentagon placement
/// (pinned by C17), but the harness's own distance computation.
pub fn planar_signed_dist(cell: &Cell, p: V3) -> Result<f64, String> {
    let q = api::forward(p, cell.face)?;
    let pent = api::pentagon(cell)?;
    if !(q[0].is_finite() && q[1].is_finite()) {
        return Err(format!("forward projection of {:?} onto face {} is not finite", p, cell.face));
    }
    Ok(convex_signed_dist(&pent, q))
}

#[derive(Debug, Clone, Copy)]
pub struct Verdict {
    pub contained: bool,
    /// true when the point is strictly interior by the planar oracle (>= STRICT)
    pub strict: bool,
    pub planar: f64,
    pub ring: RingVerdict,
    pub ring_dist: f64,
}

/// Does cell `id` contain sphere point p (up to the edge band)? Both oracles; a decisive
/// disagreement between them is reported as an error string.
pub fn contains(id: u64, p: V3) -> Result<Verdict, String> {
    let cell = codec::decode(id).ok_or_else(|| format!("{:#x} is not a canonical cell ID", id))?;
    if cell.res < 0 {
        return Ok(Verdict { contained: true, strict: true, planar: f64::INFINITY, ring: RingVerdict::Inside, ring_dist: f64::INFINITY });
    }
    let info = ring_info(id, &cell, ring_subdivisions(cell.res))?;
    let (rv, rt) = info.test(p);
    // the planar oracle is only meaningful when p is near the cell (projection onto the cell's face)
    let near = ang(p, info.centre) <= 3.0 * info.cap + 1e-9;
    let planar = if near { planar_signed_dist(&cell, p)? } else { f64::NEG_INFINITY };
    let planar_decisive = planar.abs() > 4.0 * BAND + 2.0 * info.band;
    match rv {
        RingVerdict::Inside => {
            if planar_decisive && planar < 0.0 {
                return Err(format!(
                    "oracles disagree on cell {:#x} and point {:?}: boundary ring says inside (distance {:.3e} from the ring), planar pentagon says outside by {:.3e}",
                    id, p, rt.dist, -planar
                ));
            }
            Ok(Verdict { contained: true, strict: planar >= STRICT, planar, ring: rv, ring_dist: rt.dist })
        }
        RingVerdict::Outside => {
            if planar_decisive && planar > 0.0 && near {
                return Err(format!(
                    "oracles disagree on cell {:#x} and point {:?}: boundary ring says outside (distance {:.3e} from the ring), planar pentagon says inside by {:.3e}",
                    id, p, rt.dist, planar
                ));
            }
            Ok(Verdict { contained: false, strict: false, planar, ring: rv, ring_dist: rt.dist })
        }
        RingVerdict::Band => Ok(Verdict { contained: planar >= -BAND, strict: planar >= STRICT, planar, ring: rv, ring_dist: rt.dist }),
    }
}

/// sqrt of the spherical area of a cell of resolution `res` (radians).
pub fn cell_size(res: i32) -> f64 {
    (4.0 * std::f64::consts::PI / codec::num_cells(res) as f64).sqrt()
}
