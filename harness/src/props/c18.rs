//! C18 — the 12-face frame is a regular dodecahedron in the documented orientation; nearest-face
//! selection agrees with true great-circle distance; quintant <-> segment relabelling is a bijection.

use crate::api;
use crate::engine::*;
use crate::gen;
use crate::oracle::codec::{self, Cell};
use crate::oracle::frame;
use crate::oracle::geo::*;
use a5::core::origin::{find_nearest_origin, get_origins, quintant_to_segment, segment_to_quintant};
use proptest::prelude::*;
use serde_json::{json, Value};

const RULE: &str = "finite part enumerated on every run: 12 base-cell centres against the documented frame (face 0 north \
pole, face 9 south pole, rings at authalic colatitude atan 2, longitudes -93 + 36k), all 66 centre pairs, all 12 x 5 \
relabellings. Generated part: sphere points (uniform, polar, and within 1e-12..1e-2 rad of the 30 face edges and 20 \
vertices) for nearest-face selection against the arg-max of dot products with the documented centres, and the \
resolution-0 lookup. non-trivial = the two nearest centres differ by < 1e-3 rad in distance (point next to a \
bisector); distinct by the point's bits.";

fn check_frame_face(i: u64, st: &mut Stats) -> Result<(), String> {
    let f = i as usize;
    let fr = gen::frame();
    let id = codec::encode(&Cell::base(f as u8));
    let c = a5::cell_to_lonlat(id).map_err(|e| format!("cell_to_lonlat(base cell {}) failed: {}", f, e))?;
    let v = vec_of_lonlat(c.longitude(), c.latitude().clamp(-90.0, 90.0));
    let d = ang(v, fr.centres[f]);
    st.fmax("centre-vs-documented-frame-rad", d);
    if d > 1e-9f64.to_radians() {
        return Err(format!(
            "base cell {} is centred at ({}, {}), {:e} rad from the documented face centre (lon {}, ring {})",
            f, c.longitude(), c.latitude(), d, frame::FACE_LON_RING[f].0, frame::FACE_LON_RING[f].1
        ));
    }
    if f == 0 && (c.latitude() - 90.0).abs() > 1e-9 {
        return Err(format!("face 0 is not centred on the north pole: latitude {}", c.latitude()));
    }
    if f == 9 && (c.latitude() + 90.0).abs() > 1e-9 {
        return Err(format!("face 9 is not centred on the south pole: latitude {}", c.latitude()));
    }
    // the origin table's own axis must be that same point
    let o = &get_origins()[f];
    let av = api::vec_of_spherical(o.axis);
    if ang(av, fr.centres[f]) > 1e-9f64.to_radians() {
        return Err(format!("origin table axis of face {} is {:e} rad from the documented centre", f, ang(av, fr.centres[f])));
    }
    st.nontrivial(&i);
    st.sample(true, || json!({"face": f, "centre_lonlat": [c.longitude(), c.latitude()], "deviation_rad": d}));
    Ok(())
}

fn check_pairs(st: &mut Stats) -> Result<(), String> {
    // from the library's reported centres only (independent of the frozen table)
    let mut vs = Vec::new();
    for f in 0..12u8 {
        let c = a5::cell_to_lonlat(codec::encode(&Cell::base(f))).map_err(|e| format!("cell_to_lonlat failed: {}", e))?;
        vs.push(vec_of_lonlat(c.longitude(), c.latitude().clamp(-90.0, 90.0)));
    }
    let near = 2f64.atan();
    let far = std::f64::consts::PI - near;
    let (mut n_near, mut n_far, mut n_anti) = (0, 0, 0);
    for i in 0..12 {
        for j in (i + 1)..12 {
            let d = ang(vs[i], vs[j]);
            let tol = 1e-9f64.to_radians() * 2.0;
            if (d - near).abs() < tol {
                n_near += 1;
            } else if (d - far).abs() < tol {
                n_far += 1;
            } else if (d - std::f64::consts::PI).abs() < tol {
                n_anti += 1;
            } else {
                return Err(format!("base-cell centres {} and {} are {:.12} deg apart: not a dodecahedron distance (63.4349488, 116.5650512, 180)", i, j, d.to_degrees()));
            }
            st.eval();
        }
    }
    if (n_near, n_far, n_anti) != (30, 30, 6) {
        return Err(format!("centre pairs: {} neighbouring, {} far, {} antipodal; a regular dodecahedron has 30/30/6", n_near, n_far, n_anti));
    }
    Ok(())
}

fn check_relabel(i: u64, st: &mut Stats) -> Result<(), String> {
    let f = (i / 5) as usize;
    let q = (i % 5) as usize;
    let o = &get_origins()[f];
    let (seg, or1) = quintant_to_segment(q, o);
    if seg >= 5 {
        return Err(format!("quintant_to_segment({}, face {}) = {} out of range", q, f, seg));
    }
    let (q2, or2) = segment_to_quintant(seg, o);
    if q2 != q {
        return Err(format!("segment_to_quintant(quintant_to_segment({})) = {} on face {}", q, q2, f));
    }
    if or1 != or2 {
        return Err(format!("face {} quintant {}: orientation {:?} one way, {:?} the other", f, q, or1, or2));
    }
    // the other composition, starting from the segment with the same number
    let (q3, or3) = segment_to_quintant(q, o);
    let (s3, or4) = quintant_to_segment(q3, o);
    if s3 != q || or3 != or4 {
        return Err(format!("quintant_to_segment(segment_to_quintant({})) = {} ({:?}/{:?}) on face {}", q, s3, or3, or4, f));
    }
    if q == 0 {
        let mut segs: Vec<usize> = (0..5).map(|k| quintant_to_segment(k, o).0).collect();
        segs.sort_unstable();
        if segs != vec![0, 1, 2, 3, 4] {
            return Err(format!("face {}: quintant -> segment is not a permutation of 0..4: {:?}", f, segs));
        }
    }
    st.nontrivial(&i);
    Ok(())
}

fn check_point(ps: &gen::PointSpec, st: &mut Stats) -> Result<(), String> {
    let p = ps.point();
    let v = p.vec();
    let fr = gen::frame();
    // arg-max of the dot products = nearest by great-circle distance
    let mut dots: Vec<(usize, f64)> = (0..12).map(|i| (i, dot(v, fr.centres[i]))).collect();
    dots.sort_by(|a, b| b.1.partial_cmp(&a.1).unwrap());
    let (best, second) = (dots[0], dots[1]);
    let tie = (best.1 - second.1).abs() < 1e-12;
    let allowed: Vec<usize> = dots.iter().filter(|d| (best.1 - d.1).abs() < 1e-12).map(|d| d.0).collect();
    // library sphere coordinates from the public conversion
    let sph = a5::core::coordinate_transforms::from_lon_lat(api::lonlat(p.lon, p.lat));
    let got = find_nearest_origin(sph).id as usize;
    if !allowed.contains(&got) {
        return Err(format!(
            "find_nearest_origin(({}, {})) = face {}, but face {} is nearer by great-circle distance ({:.3e} rad vs {:.3e} rad)",
            p.lon, p.lat, got, best.0, ang(v, fr.centres[got]), ang(v, fr.centres[best.0])
        ));
    }
    let id = a5::lonlat_to_cell(api::lonlat(p.lon, p.lat), 0).map_err(|e| format!("lonlat_to_cell(({}, {}), 0) failed: {}", p.lon, p.lat, e))?;
    let c = codec::decode(id).ok_or_else(|| format!("lonlat_to_cell(.., 0) returned non-canonical {:#x}", id))?;
    if c.res != 0 || !allowed.contains(&(c.face as usize)) {
        return Err(format!(
            "lonlat_to_cell(({}, {}), 0) = {:#x} (face {}, res {}), nearest face is {}",
            p.lon, p.lat, id, c.face, c.res, best.0
        ));
    }
    // the same point with its longitude written k whole turns away (k derived from the case, -3..3): the face
    // chosen must not depend on the spelling of the longitude
    let k = ((p.lon.to_bits() >> 5) % 7) as i64 - 3;
    if k != 0 {
        let lon_k = p.lon + 360.0 * k as f64;
        let got_k = find_nearest_origin(a5::core::coordinate_transforms::from_lon_lat(api::lonlat(lon_k, p.lat))).id as usize;
        if !allowed.contains(&got_k) {
            return Err(format!(
                "find_nearest_origin(({}, {})) = face {} (the same point as longitude {}), but face {} is nearer by great-circle distance ({:.3e} rad vs {:.3e} rad)",
                lon_k, p.lat, got_k, p.lon, best.0, ang(v, fr.centres[got_k]), ang(v, fr.centres[best.0])
            ));
        }
        let idk = a5::lonlat_to_cell(api::lonlat(lon_k, p.lat), 0).map_err(|e| format!("lonlat_to_cell(({}, {}), 0) failed: {}", lon_k, p.lat, e))?;
        let ck = codec::decode(idk).ok_or_else(|| format!("lonlat_to_cell(.., 0) returned non-canonical {:#x}", idk))?;
        if ck.res != 0 || !allowed.contains(&(ck.face as usize)) {
            return Err(format!("lonlat_to_cell(({}, {}), 0) = {:#x} (face {}), nearest face is {} (same point as longitude {})", lon_k, p.lat, idk, ck.face, best.0, p.lon));
        }
        st.hit(&format!("longitude-written-{:+}-turns-away", k));
    }
    // resolution 1 refines resolution 0 exactly (quintants nest in their face): away from a tie the
    // quintant found for the point belongs to the face found for it
    let id1 = a5::lonlat_to_cell(api::lonlat(p.lon, p.lat), 1).map_err(|e| format!("lonlat_to_cell(({}, {}), 1) failed: {}", p.lon, p.lat, e))?;
    let c1 = codec::decode(id1).ok_or_else(|| format!("lonlat_to_cell(.., 1) returned non-canonical {:#x}", id1))?;
    if c1.res != 1 || !allowed.contains(&(c1.face as usize)) {
        return Err(format!("lonlat_to_cell(({}, {}), 1) = {:#x} (face {}, res {}), nearest face is {}", p.lon, p.lat, id1, c1.face, c1.res, best.0));
    }
    if !tie {
        let par = a5::cell_to_parent(id1, Some(0)).map_err(|e| format!("cell_to_parent failed: {}", e))?;
        if par != id {
            return Err(format!("({}, {}): the resolution-1 cell {:#x} is not a child of the resolution-0 cell {:#x}", p.lon, p.lat, id1, id));
        }
    }
    let gap = ang(v, fr.centres[second.0]) - ang(v, fr.centres[best.0]);
    let nt = gap < 1e-3;
    if nt {
        st.nontrivial(&(p.lon.to_bits(), p.lat.to_bits()));
    }
    if tie {
        st.hit("tie(<1e-12): either face accepted");
    }
    st.hit(&format!("class:{}", p.class_name()));
    st.hit(&format!("bisector-gap:{}", if gap < 1e-9 { "<1e-9" } else if gap < 1e-6 { "<1e-6" } else if gap < 1e-3 { "<1e-3" } else { ">=1e-3" }));
    st.sample(nt, || json!({"lon": p.lon, "lat": p.lat, "class": p.class_name(), "face": got, "runner_up": second.0, "distance_gap_rad": gap}));
    Ok(())
}

/// A walk across a face edge in small steps on one thread: start at distance d from the edge, step
/// by a fraction of d through and beyond it. Every point's face (resolution-0 lookup and
/// find_nearest_origin) is judged independently, so the selection must not depend on where the
/// previous points were.
#[derive(Debug, Clone)]
pub struct SeamWalk {
    pub edge: u16,
    pub t: f64,
    pub log_d: f64,
    pub steps: Vec<f64>,
    pub res: u8,
}

fn walk_json(w: &SeamWalk) -> Value {
    json!({"edge": w.edge, "t": w.t, "log_d": w.log_d, "steps": w.steps, "res": w.res})
}
fn walk_from_json(v: &Value) -> Option<SeamWalk> {
    Some(SeamWalk {
        edge: v["edge"].as_u64()? as u16,
        t: v["t"].as_f64()?,
        log_d: v["log_d"].as_f64()?,
        steps: v["steps"].as_array()?.iter().map(|x| x.as_f64()).collect::<Option<Vec<_>>>()?,
        res: v["res"].as_u64()? as u8,
    })
}

pub fn seam_walk_points(w: &SeamWalk) -> Vec<V3> {
    let fr = gen::frame();
    let e = &fr.edges[pick_index(w.edge, 30)];
    let a = fr.vertices[e.2[0]].0;
    let b = fr.vertices[e.2[1]].0;
    let on_edge = crate::oracle::frame::slerp(a, b, 0.05 + 0.9 * w.t);
    // unit normal of the edge's great circle, pointing to face e.1[0]
    let mut n = unit(cross(a, b));
    if dot(n, fr.centres[e.1[0]]) < 0.0 {
        n = scale(n, -1.0);
    }
    let d = 10f64.powf(w.log_d);
    let mut x = d; // signed distance from the edge along n
    let mut pts = vec![unit(add(on_edge, scale(n, x)))];
    for f in &w.steps {
        x -= f * d;
        pts.push(unit(add(on_edge, scale(n, x))));
    }
    pts
}

fn check_walk(w: &SeamWalk, st: &mut Stats) -> Result<(), String> {
    let fr = gen::frame();
    for (k, v) in seam_walk_points(w).iter().enumerate() {
        let (lon, lat) = lonlat_of_vec(*v);
        let lat = lat.clamp(-90.0, 90.0);
        let pv = vec_of_lonlat(lon, lat);
        let mut dots: Vec<(usize, f64)> = (0..12).map(|i| (i, dot(pv, fr.centres[i]))).collect();
        dots.sort_by(|a, b| b.1.partial_cmp(&a.1).unwrap());
        let allowed: Vec<usize> = dots.iter().filter(|d| (dots[0].1 - d.1).abs() < 1e-12).map(|d| d.0).collect();
        let sph = a5::core::coordinate_transforms::from_lon_lat(api::lonlat(lon, lat));
        let got = find_nearest_origin(sph).id as usize;
        if !allowed.contains(&got) {
            return Err(format!(
                "step {} of a walk across the edge between faces: find_nearest_origin(({}, {})) = face {}, but face {} is nearer ({:.3e} rad vs {:.3e} rad)",
                k, lon, lat, got, dots[0].0, ang(pv, fr.centres[got]), ang(pv, fr.centres[dots[0].0])
            ));
        }
        let r = (w.res % 2) as i32;
        let id = a5::lonlat_to_cell(api::lonlat(lon, lat), r).map_err(|e| format!("lonlat_to_cell failed: {}", e))?;
        let c = codec::decode(id).ok_or_else(|| format!("non-canonical {:#x}", id))?;
        if !allowed.contains(&(c.face as usize)) {
            return Err(format!(
                "step {} of a walk across a face edge: lonlat_to_cell(({}, {}), {}) = {:#x} on face {}, nearest face is {}",
                k, lon, lat, r, id, c.face, dots[0].0
            ));
        }
        st.eval();
        st.nontrivial(&(lon.to_bits(), lat.to_bits(), k));
    }
    st.hit("seam-walks");
    st.sample(true, || json!({"seam_walk": walk_json(w)}));
    Ok(())
}

pub fn run(tier: Tier, seed: u64) -> Report {
    let mut rep = Report::new("C18", tier, seed, RULE);
    rep.assume("documented orientation as frozen in oracle/frame.rs: face numbering, ring colatitude atan(2), longitudes -93 + 36k");
    let r = run_exhaustive("frame-centres", 12, check_frame_face, |i| json!({"face": i}));
    rep.exhaustive.push("12 base-cell centres against the documented frame".into());
    if !rep.absorb("frame-centres", r) {
        return rep;
    }
    let r = run_exhaustive("centre-pairs", 1, |_, st| check_pairs(st), |_| json!({}));
    rep.exhaustive.push("all 66 pairs of base-cell centres".into());
    if !rep.absorb("centre-pairs", r) {
        return rep;
    }
    let r = run_exhaustive("relabelling", 60, check_relabel, |i| json!({"face": i / 5, "quintant": i % 5}));
    rep.exhaustive.push("all 12 x 5 quintant/segment relabellings, both compositions".into());
    if !rep.absorb("relabelling", r) {
        return rep;
    }
    let r = run_pbt(
        "nearest-face",
        seed,
        tier.pick(500_000, 15_000_000),
        || gen::point_spec([25, 5, 5, 2, 3, 25, 30, 5, 0]).boxed(),
        check_point,
        gen::point_json,
    );
    if !rep.absorb("nearest-face", r) {
        return rep;
    }
    let r = run_pbt(
        "seam-walks",
        seed,
        tier.pick(5_000, 200_000),
        || {
            (any::<u16>(), 0.0f64..1.0, -10.0f64..-2.5, proptest::collection::vec(0.2f64..0.98, 2..12), 0u8..2)
                .prop_map(|(edge, t, log_d, steps, res)| SeamWalk { edge, t, log_d, steps, res })
                .boxed()
        },
        check_walk,
        walk_json,
    );
    rep.absorb("seam-walks", r);
    rep
}

pub fn replay(section: &str, case: &Value) -> Option<Result<(), String>> {
    let mut st = Stats::default();
    Some(guarded(|| match section {
        "frame-centres" => check_frame_face(case["face"].as_u64().ok_or("bad case")?, &mut st),
        "centre-pairs" => check_pairs(&mut st),
        "relabelling" => check_relabel(case["face"].as_u64().ok_or("bad case")? * 5 + case["quintant"].as_u64().ok_or("bad case")?, &mut st),
        "nearest-face" => check_point(&gen::point_from_json(case).ok_or("bad case")?, &mut st),
        "seam-walks" => check_walk(&walk_from_json(case).ok_or("bad case")?, &mut st),
        _ => Err(format!("unknown section {}", section)),
    }))
}
