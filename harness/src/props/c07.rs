//! C07 — parent/children form one consistent tree over all resolutions.

use crate::engine::*;
use crate::gen;
use crate::oracle::codec::{self, Cell};
use crate::oracle::tree;
use proptest::prelude::*;
use serde_json::{json, Value};

const RULE: &str = "cells from the independent encoder (world cell, base cells, r up to 29, all position classes) x \
target resolution with fan-out <= 4^8, plus exhaustive one- and two-level jumps over every cell of the low \
resolutions; oracle = set model of the hierarchy. non-trivial = the jump crosses an aperture change (-1->0, 0->1, \
1->2) or spans >= 2 levels or starts at position != 0; distinct by (cell ID, target).";

pub const MAX_FANOUT: u128 = 1 << 16;

#[derive(Debug, Clone)]
pub struct Case {
    pub spec: gen::CellSpec,
    pub delta: u8,
    pub mid: u8,
    pub a: u8,
    pub b: u8,
    pub pick: u16,
}

fn case_json(c: &Case) -> Value {
    json!({"cell": gen::cellspec_json(&c.spec), "delta": c.delta, "mid": c.mid, "a": c.a, "b": c.b, "pick": c.pick})
}

fn case_from_json(v: &Value) -> Option<Case> {
    Some(Case {
        spec: gen::cellspec_from_json(&v["cell"])?,
        delta: v["delta"].as_u64()? as u8,
        mid: v["mid"].as_u64()? as u8,
        a: v["a"].as_u64()? as u8,
        b: v["b"].as_u64()? as u8,
        pick: v["pick"].as_u64()? as u16,
    })
}

/// Largest target resolution from `c` with fan-out <= 4^8.
pub fn max_target(c: &Cell) -> i32 {
    let mut t = c.res;
    while t < 29 && tree::num_descendants(c, t + 1) <= MAX_FANOUT {
        t += 1;
    }
    t
}

fn canon(id: u64, what: &str) -> Result<Cell, String> {
    codec::decode(id).ok_or_else(|| format!("{} returned non-canonical ID {:#x}", what, id))
}

/// children(c, target) against the model; returns the children.
pub fn check_children(c: &Cell, target: i32) -> Result<Vec<u64>, String> {
    let id = codec::encode(c);
    let kids = a5::cell_to_children(id, Some(target))
        .map_err(|e| format!("cell_to_children({:#x}, {}) failed: {}", id, target, e))?;
    let want: Vec<u64> = tree::descendants(c, target).iter().map(codec::encode).collect();
    let n = tree::num_descendants(c, target);
    if kids.len() as u128 != n {
        return Err(format!("cell_to_children({:#x}, {}) has {} elements, hierarchy dictates {}", id, target, kids.len(), n));
    }
    let mut ks = kids.clone();
    ks.sort_unstable();
    for w in ks.windows(2) {
        if w[0] == w[1] {
            return Err(format!("cell_to_children({:#x}, {}) contains {:#x} twice", id, target, w[0]));
        }
    }
    let mut ws = want;
    ws.sort_unstable();
    if ks != ws {
        let extra: Vec<String> = ks.iter().filter(|k| ws.binary_search(k).is_err()).take(3).map(|k| format!("{:#x}", k)).collect();
        let missing: Vec<String> = ws.iter().filter(|k| ks.binary_search(k).is_err()).take(3).map(|k| format!("{:#x}", k)).collect();
        return Err(format!(
            "cell_to_children({:#x}, {}) is not the set of descendants: unexpected {:?}, missing {:?}",
            id, target, extra, missing
        ));
    }
    for &k in &kids {
        let kc = canon(k, "cell_to_children")?;
        if kc.res != target || a5::get_resolution(k) != target {
            return Err(format!("child {:#x} of {:#x} has resolution {} instead of {}", k, id, kc.res, target));
        }
        let p = a5::cell_to_parent(k, Some(c.res)).map_err(|e| format!("cell_to_parent({:#x}, {}) failed: {}", k, c.res, e))?;
        if p != id {
            return Err(format!("cell_to_parent({:#x}, {}) = {:#x}, but it is a child of {:#x}", k, c.res, p, id));
        }
    }
    Ok(kids)
}

fn check_case(case: &Case, st: &mut Stats) -> Result<(), String> {
    let c = case.spec.cell();
    let id = codec::encode(&c);
    // In a quarter of the cases a request that must be refused (more than 4^20 children) comes first on
    // this thread: a refusal must not leave anything behind that changes the next answer.
    if case.pick % 4 == 0 {
        let coarse = if case.a % 2 == 0 { Cell::WORLD } else { Cell::base(case.b % 12) };
        match a5::cell_to_children(codec::encode(&coarse), Some(29)) {
            Err(_) => st.hit("refused-request-first"),
            Ok(v) => return Err(format!("cell_to_children({:#x}, 29) returned {} cells instead of refusing", codec::encode(&coarse), v.len())),
        }
    }
    let mt = max_target(&c);
    let target = (c.res + case.delta as i32).min(mt);
    let kids = check_children(&c, target)?;

    // default arguments
    if c.res < 29 {
        let d = a5::cell_to_children(id, None).map_err(|e| format!("cell_to_children({:#x}, None) failed: {}", id, e))?;
        let e = a5::cell_to_children(id, Some(c.res + 1)).map_err(|e| format!("cell_to_children one level failed: {}", e))?;
        if d != e {
            return Err(format!("cell_to_children({:#x}, None) differs from the one-level call", id));
        }
        let mut want: Vec<u64> = tree::children(&c).iter().map(codec::encode).collect();
        let mut got = d.clone();
        want.sort_unstable();
        got.sort_unstable();
        if want != got {
            return Err(format!("cell_to_children({:#x}, None) is not the model's child set", id));
        }
    }
    if c.res >= 0 {
        let p = a5::cell_to_parent(id, None).map_err(|e| format!("cell_to_parent({:#x}, None) failed: {}", id, e))?;
        let want = codec::encode(&tree::parent(&c).unwrap());
        if p != want {
            return Err(format!("cell_to_parent({:#x}, None) = {:#x}, model parent is {:#x}", id, p, want));
        }
    }

    // children of children == children at the deeper level
    if target > c.res {
        let mid = c.res + (case.mid as i32 % (target - c.res + 1));
        let mids = a5::cell_to_children(id, Some(mid)).map_err(|e| format!("cell_to_children to mid failed: {}", e))?;
        let mut flat: Vec<u64> = Vec::with_capacity(kids.len());
        for m in mids {
            flat.extend(a5::cell_to_children(m, Some(target)).map_err(|e| format!("cell_to_children({:#x}, {}) failed: {}", m, target, e))?);
        }
        let mut a = flat;
        let mut b = kids.clone();
        a.sort_unstable();
        b.sort_unstable();
        if a != b {
            return Err(format!(
                "children of children differ: {:#x} via level {} to {} gives {} cells vs {} directly",
                id, mid, target, a.len(), b.len()
            ));
        }
    }

    // ancestor lookup composes, checked on a picked descendant and against the model
    let x = kids[pick_index(case.pick, kids.len())];
    let xc = canon(x, "cell_to_children")?;
    let span = xc.res + 2; // levels -1..=xc.res
    let la = xc.res - (case.a as i32 % span);
    let lb = la - (case.b as i32 % (la + 2));
    let pa = a5::cell_to_parent(x, Some(la)).map_err(|e| format!("cell_to_parent({:#x}, {}) failed: {}", x, la, e))?;
    let pab = a5::cell_to_parent(pa, Some(lb)).map_err(|e| format!("cell_to_parent({:#x}, {}) failed: {}", pa, lb, e))?;
    let pb = a5::cell_to_parent(x, Some(lb)).map_err(|e| format!("cell_to_parent({:#x}, {}) failed: {}", x, lb, e))?;
    if pab != pb {
        return Err(format!("ancestor lookup does not compose: parent(parent({:#x},{}),{}) = {:#x} but parent(_,{}) = {:#x}", x, la, lb, pab, lb, pb));
    }
    let want_a = codec::encode(&tree::ancestor(&xc, la));
    let want_b = codec::encode(&tree::ancestor(&xc, lb));
    if pa != want_a || pb != want_b {
        return Err(format!("cell_to_parent({:#x}) at levels {},{} = {:#x},{:#x}; model says {:#x},{:#x}", x, la, lb, pa, pb, want_a, want_b));
    }

    let crosses = c.res < 2 && target > c.res;
    let nt = crosses || target - c.res >= 2 || c.pos != 0;
    if nt {
        st.nontrivial(&(id, target));
    }
    st.hit(&format!("from-res:{:02}", c.res));
    st.hit(&format!("delta:{}", target - c.res));
    if crosses {
        st.hit("crosses-aperture-change");
    }
    st.add("children-checked", kids.len() as u64);
    st.sample(nt, || json!({"cell": gen::cell_json(&c), "target": target, "children": kids.len(), "picked_child": format!("{:x}", x), "levels": [la, lb]}));
    Ok(())
}

/// Exhaustive: cell `i` of resolution `res`: one- and two-level children against the model and
/// (when res >= 0) membership in its parent's children.
fn check_exhaustive(res: i32, i: u64, st: &mut Stats) -> Result<(), String> {
    let c = gen::cell_by_index(res, i);
    let id = codec::encode(&c);
    if res < 29 {
        check_children(&c, res + 1)?;
    }
    if res < 28 && tree::num_descendants(&c, res + 2) <= MAX_FANOUT {
        check_children(&c, res + 2)?;
    }
    if res >= 0 {
        let p = a5::cell_to_parent(id, None).map_err(|e| format!("cell_to_parent({:#x}, None) failed: {}", id, e))?;
        let pc = canon(p, "cell_to_parent")?;
        if Some(pc) != tree::parent(&c) {
            return Err(format!("cell_to_parent({:#x}) = {:#x} is not the model parent", id, p));
        }
        let sibs = a5::cell_to_children(p, Some(res)).map_err(|e| format!("cell_to_children({:#x},{}) failed: {}", p, res, e))?;
        if sibs.iter().filter(|&&s| s == id).count() != 1 {
            return Err(format!("{:#x} does not occur exactly once among the children of its parent {:#x}", id, p));
        }
        if res >= 1 {
            let g = a5::cell_to_parent(id, Some(res - 2)).map_err(|e| format!("cell_to_parent two levels failed: {}", e))?;
            let want = codec::encode(&tree::ancestor(&c, res - 2));
            if g != want {
                return Err(format!("cell_to_parent({:#x}, {}) = {:#x}, model says {:#x}", id, res - 2, g, want));
            }
        }
    }
    if c.pos != 0 || res < 2 {
        st.nontrivial(&id);
    }
    Ok(())
}

pub fn run(tier: Tier, seed: u64) -> Report {
    let mut rep = Report::new("C07", tier, seed, RULE);
    rep.assume("the set model in oracle/tree.rs and the independent encoder are the intended hierarchy");

    // base cells
    {
        let r = run_exhaustive(
            "res0-cells",
            1,
            |_, _| {
                let got = a5::get_res0_cells().map_err(|e| format!("get_res0_cells failed: {}", e))?;
                let want: Vec<u64> = (0..12).map(|f| codec::encode(&Cell::base(f))).collect();
                let mut g = got.clone();
                g.sort_unstable();
                if g != want {
                    return Err(format!("get_res0_cells() = {:x?}, expected the 12 base IDs", got));
                }
                Ok(())
            },
            |_| json!({}),
        );
        if !rep.absorb("res0-cells", r) {
            return rep;
        }
    }
    let max_ex = tier.pick(7, 8);
    for res in -1..=max_ex {
        let n = codec::num_cells(res) as u64;
        let name = format!("exhaustive-r{}", res);
        let r = run_exhaustive(&name, n, |i, st| check_exhaustive(res, i, st), |i| json!({"res": res, "index": i}));
        rep.exhaustive.push(format!("all {} cells of resolution {}: one- and two-level children, parent, grandparent", n, res));
        if !rep.absorb(&name, r) {
            return rep;
        }
    }
    let r = run_pbt(
        "jumps",
        seed,
        tier.pick(10_000, 300_000),
        || {
            (gen::cell_spec(-1, 29), 0u8..=8, any::<u8>(), any::<u8>(), any::<u8>(), any::<u16>())
                .prop_map(|(spec, delta, mid, a, b, pick)| Case { spec, delta, mid, a, b, pick })
                .boxed()
        },
        check_case,
        case_json,
    );
    rep.absorb("jumps", r);
    rep
}

pub fn replay(section: &str, case: &Value) -> Option<Result<(), String>> {
    let mut st = Stats::default();
    Some(guarded(|| {
        if section.starts_with("exhaustive-r") {
            check_exhaustive(case["res"].as_i64().ok_or("bad case")? as i32, case["index"].as_u64().ok_or("bad case")?, &mut st)
        } else if section == "jumps" {
            check_case(&case_from_json(case).ok_or("bad case")?, &mut st)
        } else if section == "res0-cells" {
            let got = a5::get_res0_cells()?;
            let want: Vec<u64> = (0..12).map(|f| codec::encode(&Cell::base(f))).collect();
            let mut g = got.clone();
            g.sort_unstable();
            if g != want { Err("get_res0_cells mismatch".to_string()) } else { Ok(()) }
        } else {
            Err(format!("unknown section {}", section))
        }
    }))
}
