//! C06 — cell IDs keep denoting the same place as in the reference release (v0.6.2).

use super::contain;
use crate::api;
use crate::engine::*;
use crate::gen;
use crate::oracle::codec::{self, Cell};
use crate::oracle::geo::*;
use crate::refapi;
use proptest::prelude::*;
use serde_json::{json, Value};
use std::io::{BufRead, Write};

const RULE: &str = "frozen table (golden/c06.jsonl, generated once from the reference release: every resolution 0..29 x every face x \
quintant x 8 position classes, one interior query point per cell with its reference ID, margin, centre and corners) \
replayed in full; live differential against the vendored reference (crate a5_ref): generated points x resolutions and \
generated IDs. Oracles: lookup == reference ID wherever the reference's answer contains the point with planar margin \
>= 2e-12 (reference's own pentagon and projection); centre and corners within 1e-9 deg + 8 eps / sin(colatitude) of the \
reference's. non-trivial = r >= 2 and the reference answer is strictly interior; distinct by (point bits, resolution) / ID.";

/// Tolerance (radians) for 'the same physical point': 1e-9 degrees plus the reference's own
/// conditioning error next to a pole (its acos-based colatitude, DESIGN.md §4-D2).
fn point_tol(v: V3) -> f64 {
    let s = (v[0] * v[0] + v[1] * v[1]).sqrt().max(1e-300);
    1e-9f64.to_radians() + 8.0 * f64::EPSILON / s
}

fn same_point(a: (f64, f64), b: (f64, f64)) -> (bool, f64, f64) {
    let va = vec_of_lonlat(a.0, a.1.clamp(-90.0, 90.0));
    let vb = vec_of_lonlat(b.0, b.1.clamp(-90.0, 90.0));
    let d = ang(va, vb);
    let tol = point_tol(vb);
    (d <= tol, d, tol)
}

/// Geometry of `id`: this tree vs given reference values.
fn check_geometry(id: u64, ref_centre: (f64, f64), ref_corners: &[(f64, f64)], st: &mut Stats) -> Result<(), String> {
    let c = a5::cell_to_lonlat(id).map_err(|e| format!("cell_to_lonlat({:#x}) failed: {}", id, e))?;
    let (ok, d, tol) = same_point((c.longitude(), c.latitude()), ref_centre);
    st.fmax("centre-deviation/tolerance", d / tol);
    if !ok {
        return Err(format!(
            "centre of {:#x} moved: ({}, {}) now, ({}, {}) in the reference release: {:.3e} rad apart (tolerance {:.3e})",
            id, c.longitude(), c.latitude(), ref_centre.0, ref_centre.1, d, tol
        ));
    }
    let b = api::boundary_lonlat(id, Some(1), false)?;
    if b.len() != ref_corners.len() {
        return Err(format!("{:#x} has {} corners, the reference release reported {}", id, b.len(), ref_corners.len()));
    }
    // "the corners are the same physical points": the statement does not say which corner a ring starts at,
    // so the rings are compared as cyclic sequences (same orientation): the start offset is the one that
    // brings this tree's first corner nearest to a reference corner
    let n = b.len();
    let mut off = 0;
    let mut best = f64::INFINITY;
    for k in 0..n {
        let (_, d, _) = same_point(b[0], ref_corners[k]);
        if d < best {
            best = d;
            off = k;
        }
    }
    if off != 0 {
        st.hit("ring-starts-at-another-corner-than-in-the-reference");
    }
    for (i, p) in b.iter().enumerate() {
        let q = &ref_corners[(i + off) % n];
        let (ok, d, tol) = same_point(*p, *q);
        st.fmax("corner-deviation/tolerance", d / tol);
        if !ok {
            return Err(format!(
                "corner {} of {:#x} moved: ({}, {}) now, nearest cyclic match ({}, {}) in the reference release: {:.3e} rad apart (tolerance {:.3e})",
                i, id, p.0, p.1, q.0, q.1, d, tol
            ));
        }
    }
    Ok(())
}

// ---------------------------------------------------------------------------------------------
// golden table

pub fn golden_path() -> std::path::PathBuf {
    std::path::PathBuf::from(std::env::var("A5VERIF_ROOT").unwrap_or_else(|_| "/verif".into())).join("golden/c06.jsonl")
}

const GOLDEN_CLASSES: [u8; 8] = [0, 1, 2, 3, 4, 5, 6, 8];

/// Generates the frozen table from the reference crate only. Run once; the result is committed.
pub fn generate_golden() -> Result<usize, String> {
    let path = golden_path();
    std::fs::create_dir_all(path.parent().unwrap()).map_err(|e| e.to_string())?;
    let mut f = std::io::BufWriter::new(std::fs::File::create(&path).map_err(|e| e.to_string())?);
    let mut rows = 0;
    let mut x: u64 = 0x5eed_c06;
    for res in 0..=29 {
        for face in 0..12u8 {
            let nq = if res == 0 { 1 } else { 5 };
            for quintant in 0..nq {
                let classes: &[u8] = if res <= 1 { &GOLDEN_CLASSES[..1] } else { &GOLDEN_CLASSES };
                for (ci, &class) in classes.iter().enumerate() {
                    x = x.wrapping_mul(6364136223846793005).wrapping_add(1442695040888963407);
                    let cell = Cell {
                        res,
                        face,
                        quintant,
                        pos: if res >= 2 { gen::make_pos(class, x >> 3, (x >> 40) as u8, (res - 1) as u32) } else { 0 },
                    };
                    let id = codec::encode(&cell);
                    let pent = refapi::pentagon(&cell)?;
                    let n = pent.len();
                    let c = [pent.iter().map(|v| v[0]).sum::<f64>() / n as f64, pent.iter().map(|v| v[1]).sum::<f64>() / n as f64];
                    let k = ci % n;
                    let q = [c[0] + 0.3 * (pent[k][0] - c[0]), c[1] + 0.3 * (pent[k][1] - c[1])];
                    let (lon, lat) = refapi::inverse_lonlat(q, face)?;
                    let rid = refapi::lookup(lon, lat, res)?;
                    let rcell = codec::decode(rid).ok_or_else(|| format!("reference returned non-canonical {:#x}", rid))?;
                    let margin = refapi::planar_margin(&rcell, lon, lat)?;
                    let centre = refapi::centre(id)?;
                    let corners = refapi::corners(id)?;
                    let row = json!({
                        "res": res, "face": face, "quintant": quintant, "pos": cell.pos, "pos_class": gen::POS_CLASSES[class as usize],
                        "cell": format!("{:x}", id),
                        "query": [lon, lat], "ref_id": format!("{:x}", rid), "ref_margin": margin,
                        "centre": [centre.0, centre.1],
                        "corners": corners.iter().map(|p| json!([p.0, p.1])).collect::<Vec<_>>(),
                    });
                    writeln!(f, "{}", row).map_err(|e| e.to_string())?;
                    rows += 1;
                }
            }
        }
    }
    f.flush().map_err(|e| e.to_string())?;
    Ok(rows)
}

#[derive(Debug, Clone)]
pub struct Row {
    pub res: i32,
    pub face: u8,
    pub quintant: u8,
    pub cell: u64,
    pub query: (f64, f64),
    pub ref_id: u64,
    pub ref_margin: f64,
    pub centre: (f64, f64),
    pub corners: Vec<(f64, f64)>,
}

fn parse_row(v: &Value) -> Option<Row> {
    Some(Row {
        res: v["res"].as_i64()? as i32,
        face: v["face"].as_u64()? as u8,
        quintant: v["quintant"].as_u64()? as u8,
        cell: u64::from_str_radix(v["cell"].as_str()?, 16).ok()?,
        query: (v["query"][0].as_f64()?, v["query"][1].as_f64()?),
        ref_id: u64::from_str_radix(v["ref_id"].as_str()?, 16).ok()?,
        ref_margin: v["ref_margin"].as_f64()?,
        centre: (v["centre"][0].as_f64()?, v["centre"][1].as_f64()?),
        corners: v["corners"].as_array()?.iter().map(|p| Some((p[0].as_f64()?, p[1].as_f64()?))).collect::<Option<Vec<_>>>()?,
    })
}

pub fn load_golden() -> Result<Vec<Row>, String> {
    let f = std::fs::File::open(golden_path()).map_err(|e| format!("cannot open {}: {}", golden_path().display(), e))?;
    let mut rows = Vec::new();
    for (i, line) in std::io::BufReader::new(f).lines().enumerate() {
        let line = line.map_err(|e| e.to_string())?;
        if line.trim().is_empty() {
            continue;
        }
        let v: Value = serde_json::from_str(&line).map_err(|e| format!("golden line {}: {}", i + 1, e))?;
        rows.push(parse_row(&v).ok_or_else(|| format!("golden line {} malformed", i + 1))?);
    }
    Ok(rows)
}

fn check_row(row: &Row, st: &mut Stats) -> Result<(), String> {
    // (1) the vendored reference reproduces the frozen row bit for bit (oracle sanity)
    let rid = refapi::lookup(row.query.0, row.query.1, row.res)?;
    if rid != row.ref_id {
        return Err(format!("HARNESS: vendored reference no longer reproduces the frozen table: {:#x} vs {:#x}", rid, row.ref_id));
    }
    // (2) this tree
    if row.ref_margin >= contain::STRICT {
        let got = a5::lonlat_to_cell(api::lonlat(row.query.0, row.query.1), row.res)
            .map_err(|e| format!("lonlat_to_cell(({}, {}), {}) failed: {}", row.query.0, row.query.1, row.res, e))?;
        if got != row.ref_id {
            return Err(format!(
                "lonlat_to_cell(({}, {}), {}) = {:#x}, the reference release returned {:#x} (which contains the point with margin {:.3e})",
                row.query.0, row.query.1, row.res, got, row.ref_id, row.ref_margin
            ));
        }
        if row.res >= 2 {
            st.nontrivial(&(row.query.0.to_bits(), row.query.1.to_bits(), row.res));
        }
        st.hit("table:lookup-asserted");
    } else {
        st.hit("table:reference-answer-not-strictly-containing(lookup not asserted)");
    }
    check_geometry(row.cell, row.centre, &row.corners, st)?;
    st.hit(&format!("table:bucket:f{:02}q{}r{:02}", row.face, row.quintant, row.res));
    st.sample(row.res >= 2, || json!({"table_row": {"res": row.res, "query": [row.query.0, row.query.1], "ref_id": format!("{:x}", row.ref_id), "ref_margin": row.ref_margin}}));
    Ok(())
}

// ---------------------------------------------------------------------------------------------
// live differential

fn check_live_point(src: &super::c01::Src, res: i32, st: &mut Stats) -> Result<(), String> {
    let (lon, lat, class) = src.with_res(res).lonlat()?;
    let rid = refapi::lookup(lon, lat, res).map_err(|e| format!("reference lookup failed: {}", e))?;
    let rcell = match codec::decode(rid) {
        Some(c) => c,
        None => {
            st.hit("live:reference-returned-non-canonical");
            return Ok(());
        }
    };
    let margin = refapi::planar_margin(&rcell, lon, lat)?;
    if margin >= contain::STRICT {
        let got = a5::lonlat_to_cell(api::lonlat(lon, lat), res).map_err(|e| format!("lonlat_to_cell(({}, {}), {}) failed: {}", lon, lat, res, e))?;
        if got != rid {
            return Err(format!(
                "lonlat_to_cell(({}, {}), {}) = {:#x}, the reference release returns {:#x}, which contains the point with margin {:.3e} [class {}]",
                lon, lat, res, got, rid, margin, class
            ));
        }
        // the same place with its longitude written k whole turns away (k = -3..3, derived from the case):
        // stored coordinates are not always normalised, and the reference handled a few turns exactly
        let k = ((lon.to_bits() >> 7) % 7) as i64 - 3;
        if k != 0 {
            let lon_k = lon + 360.0 * k as f64;
            let rid_k = refapi::lookup(lon_k, lat, res).map_err(|e| format!("reference lookup failed: {}", e))?;
            if rid_k == rid {
                let got_k = a5::lonlat_to_cell(api::lonlat(lon_k, lat), res).map_err(|e| format!("lonlat_to_cell(({}, {}), {}) failed: {}", lon_k, lat, res, e))?;
                if got_k != rid {
                    return Err(format!(
                        "lonlat_to_cell(({}, {}), {}) = {:#x}, the reference release returns {:#x} for this spelling and for longitude {}, and that cell contains the point with margin {:.3e} [class {}]",
                        lon_k, lat, res, got_k, rid, lon, margin, class
                    ));
                }
                st.hit("live:lookup-asserted(longitude some turns away)");
            } else {
                st.hit("live:reference-differs-between-spellings(not asserted)");
            }
        }
        if res >= 2 {
            st.nontrivial(&(lon.to_bits(), lat.to_bits(), res));
        }
        st.hit("live:lookup-asserted");
        st.hit(&format!("live:bucket:f{:02}q{}r{:02}", rcell.face, rcell.quintant, res));
    } else if margin >= -contain::BAND {
        st.hit("live:reference-answer-in-rounding-band(not asserted)");
    } else {
        st.hit("live:reference-wrong(only C01 applies)");
    }
    st.hit(&format!("live:class:{}", class));
    st.sample(res >= 2 && margin >= contain::STRICT, || json!({"lon": lon, "lat": lat, "res": res, "class": class, "ref_id": format!("{:x}", rid), "ref_margin": margin}));
    Ok(())
}

fn check_live_id(pick: &super::c04::Pick, st: &mut Stats) -> Result<(), String> {
    let (id, c, label) = pick.resolve()?;
    let centre = refapi::centre(id)?;
    let corners = refapi::corners(id)?;
    check_geometry(id, centre, &corners, st)?;
    if c.res >= 2 {
        st.nontrivial(&id);
    }
    st.hit(&format!("live-ids:chosen-by:{}", label));
    Ok(())
}

pub fn run(tier: Tier, seed: u64) -> Report {
    let mut rep = Report::new("C06", tier, seed, RULE);
    rep.assume("the vendored crate reference/a5-0.6.2 is the pinned release (verbatim src/, package renamed); agreement with the TypeScript/Python ports is inferred from agreement with it");
    let rows = match load_golden() {
        Ok(r) => r,
        Err(e) => {
            eprintln!("harness: {}", e);
            std::process::exit(2);
        }
    };
    let r = run_exhaustive(
        "table",
        rows.len() as u64,
        |i, st| check_row(&rows[i as usize], st),
        |i| json!({"row": i, "res": rows[i as usize].res, "query": [rows[i as usize].query.0, rows[i as usize].query.1], "cell": format!("{:x}", rows[i as usize].cell)}),
    );
    rep.exhaustive.push(format!("all {} rows of the frozen table", rows.len()));
    if let Some(v) = &r.violation {
        if v.message.starts_with("HARNESS:") {
            eprintln!("harness: {}", v.message);
            std::process::exit(2);
        }
    }
    if !rep.absorb("table", r) {
        return rep;
    }
    let r = run_pbt(
        "live-points",
        seed,
        tier.pick(50_000, 1_500_000),
        || (super::c01::src_strategy(gen::DEFAULT_POINT_WEIGHTS, 2), 0i32..=29).boxed(),
        |(src, res), st| check_live_point(src, *res, st),
        |(src, res)| json!({"src": super::c01::src_json(src), "res": res}),
    );
    if !rep.absorb("live-points", r) {
        return rep;
    }
    let r = run_pbt("live-ids", seed, tier.pick(30_000, 800_000), || super::c04::picks(0, 29, 4), check_live_id, super::c04::pick_json);
    rep.absorb("live-ids", r);
    let tb = rep.stats.hist.keys().filter(|k| k.starts_with("table:bucket:")).count();
    let lb = rep.stats.hist.keys().filter(|k| k.starts_with("live:bucket:")).count();
    rep.extra.insert("table_buckets_hit_of_1752".into(), json!(tb));
    rep.extra.insert("live_buckets_hit_of_1752".into(), json!(lb));
    // keep the histogram readable: drop the per-bucket counters after counting them
    rep.stats.hist.retain(|k, _| !k.contains(":bucket:"));
    rep
}

pub fn replay(section: &str, case: &Value) -> Option<Result<(), String>> {
    let mut st = Stats::default();
    Some(guarded(|| match section {
        "table" => {
            let rows = load_golden()?;
            let i = case["row"].as_u64().ok_or("bad case")? as usize;
            check_row(rows.get(i).ok_or("row out of range")?, &mut st)
        }
        "live-points" => check_live_point(&super::c01::src_from_json(&case["src"]).ok_or("bad case")?, case["res"].as_i64().ok_or("bad case")? as i32, &mut st),
        "live-ids" => check_live_id(&super::c04::pick_from_json(case).ok_or("bad case")?, &mut st),
        _ => Err(format!("unknown section {}", section)),
    }))
}
