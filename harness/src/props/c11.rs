//! C11 — the cell boundary is a well-formed ring around the cell centre.

use super::c04::{pick_from_json, pick_json, picks, Pick};
use crate::api;
use crate::engine::*;
use crate::gen;
use crate::oracle::codec::{self, Cell};
use crate::oracle::geo::*;
use proptest::prelude::*;
use serde_json::{json, Value};

const RULE: &str = "cells r = 0..29 (50% found by lookup at antimeridian / pole / near-pole / vertex / seam points, the rest from \
the encoder) x closed/open ring x subdivision n in {1,2,3,7,16,64,default} (2/3) or uniform in 1..64 (1/3). Oracles: length, closure bit-for-bit, finite \
coordinates, |lat| <= 90, winding number of the ring about the reported centre == +1 (counter-clockwise and centre \
inside, gnomonic at the centre), longitude window < 180 deg unless the ring contains or touches a pole (harness-side \
predicate, 1e-9 rad), corners of the n = 1 ring present in every n ring within 1e-12 rad. non-trivial = the ring \
crosses the antimeridian, or is within 3 cell sizes of a pole, or n is neither 1 nor the default; distinct by (ID, n, closed).";

const NS: [Option<i32>; 7] = [Some(1), Some(2), Some(3), Some(7), Some(16), Some(64), None];

pub fn check_ring(id: u64, c: &Cell, nsel: u8, closed: bool, label: &str, st: &mut Stats) -> Result<(), String> {
    // nsel < 7: the named values; otherwise any n in 1..=64
    // nsel >= 71: subdivisions well beyond 64 (the statement says every n >= 1), incl. the byte and power-of-two borders
    const LARGE: [i32; 20] = [65, 96, 100, 127, 128, 129, 200, 255, 256, 257, 300, 511, 512, 513, 777, 1000, 1024, 1025, 2048, 4096];
    let n = if (nsel as usize) < NS.len() {
        NS[nsel as usize]
    } else if nsel < 71 {
        Some(1 + (nsel as i32 - NS.len() as i32) % 64)
    } else {
        Some(LARGE[(nsel as usize - 71) % LARGE.len()])
    };
    let corners = if c.res == 1 { 3usize } else { 5usize };
    let ring = api::boundary_lonlat(id, n, closed).map_err(|e| format!("cell_to_boundary({:#x}) failed: {}", id, e))?;
    let extra = if closed { 1 } else { 0 };
    match n {
        Some(k) => {
            if ring.len() != corners * k as usize + extra {
                return Err(format!("cell_to_boundary({:#x}, n={}, closed={}) has {} points, expected {}", id, k, closed, ring.len(), corners * k as usize + extra));
            }
        }
        None => {
            if ring.len() < corners + extra || (ring.len() - extra) % corners != 0 {
                return Err(format!("cell_to_boundary({:#x}, default n, closed={}) has {} points: not a multiple of {} corners", id, closed, ring.len(), corners));
            }
        }
    }
    if closed {
        let (a, b) = (ring[0], ring[ring.len() - 1]);
        if a.0.to_bits() != b.0.to_bits() || a.1.to_bits() != b.1.to_bits() {
            return Err(format!("closed ring of {:#x} does not repeat its first point: {:?} vs {:?}", id, a, b));
        }
    }
    for p in &ring {
        if !p.0.is_finite() || !p.1.is_finite() {
            return Err(format!("boundary of {:#x} has a non-finite coordinate {:?}", id, p));
        }
        if p.1.abs() > 90.0 + 1e-9 {
            return Err(format!("boundary of {:#x} has latitude {}", id, p.1));
        }
    }
    let open: Vec<(f64, f64)> = if closed { ring[..ring.len() - 1].to_vec() } else { ring.clone() };
    let vecs: Vec<V3> = open.iter().map(|p| vec_of_lonlat(p.0, p.1.clamp(-90.0, 90.0))).collect();
    // orientation + centre containment
    let centre = a5::cell_to_lonlat(id).map_err(|e| format!("cell_to_lonlat({:#x}) failed: {}", id, e))?;
    let cv = vec_of_lonlat(centre.longitude(), centre.latitude().clamp(-90.0, 90.0));
    let t = ring_test(&vecs, cv);
    if !t.visible {
        return Err(format!("boundary of {:#x} is not within a hemisphere of its reported centre", id));
    }
    if t.winding != 1 {
        return Err(format!(
            "boundary of {:#x} (res {}, n={:?}) winds {} times round the reported centre ({}, {}): expected +1 (counter-clockwise, centre inside)",
            id, c.res, n, t.winding, centre.longitude(), centre.latitude()
        ));
    }
    // pole predicate from the ring itself
    let mut touches_pole = false;
    let mut pole_dist = f64::INFINITY;
    for pole in [[0.0, 0.0, 1.0], [0.0, 0.0, -1.0]] {
        let pt = ring_test(&vecs, pole);
        if pt.visible {
            pole_dist = pole_dist.min(pt.dist);
            if pt.winding != 0 || pt.dist < 1e-9 {
                touches_pole = true;
            }
        }
    }
    let (mut lo, mut hi) = (f64::INFINITY, f64::NEG_INFINITY);
    for p in &open {
        lo = lo.min(p.0);
        hi = hi.max(p.0);
    }
    if !touches_pole && !(hi - lo < 180.0) {
        return Err(format!(
            "boundary of {:#x} (res {}) spans longitudes {} .. {} (>= 180 deg) although it does not touch a pole (nearest pole {:.3e} rad from the ring)",
            id, c.res, lo, hi, pole_dist
        ));
    }
    // corners are the same physical points for every n
    if n != Some(1) {
        let base = api::boundary_vecs(id, 1)?;
        for (i, b) in base.iter().enumerate() {
            let d = vecs.iter().map(|v| ang(*v, *b)).fold(f64::INFINITY, f64::min);
            st.fmax("corner-mismatch-rad", d);
            if !(d <= 1e-12) {
                return Err(format!("corner {} of {:#x} (from n=1) is {:.3e} rad from the nearest point of the n={:?} ring", i, id, d, n));
            }
        }
    }
    let cell_size = (4.0 * std::f64::consts::PI / codec::num_cells(c.res) as f64).sqrt();
    let crosses_am = hi > 180.0 || lo < -180.0 || (hi > 179.0 && open.iter().any(|p| p.0 < -179.0));
    let near_pole = touches_pole || pole_dist < 3.0 * cell_size;
    let nt = crosses_am || near_pole || (n != Some(1) && n.is_some());
    if nt {
        st.nontrivial(&(id, nsel, closed));
    }
    if crosses_am {
        st.hit("crosses-antimeridian");
    }
    if touches_pole {
        st.hit("touches-pole(longitude window exempt)");
    } else if near_pole {
        st.hit("within-3-cell-sizes-of-pole");
    }
    st.hit(&format!("n:{}", match n { None => "default".to_string(), Some(k) if [1, 2, 3, 7, 16, 64].contains(&k) && (nsel as usize) < NS.len() => k.to_string(), Some(k) if k > 64 => "large(65..4096)".to_string(), Some(_) => "other(1..64)".to_string() }));
    st.hit(&format!("res:{:02}", c.res));
    st.hit(&format!("chosen-by:{}", label));
    st.sample(nt, || json!({"cell": gen::cell_json(c), "n": n, "closed": closed, "points": ring.len(), "lon_window": [lo, hi], "touches_pole": touches_pole, "first_points": ring.iter().take(3).collect::<Vec<_>>()}));
    Ok(())
}

pub fn run(tier: Tier, seed: u64) -> Report {
    let mut rep = Report::new("C11", tier, seed, RULE);
    rep.assume("'touches a pole' is decided by the harness from the ring (pole inside, or within 1e-9 rad of the polyline)");
    let r = run_pbt(
        "rings",
        seed,
        tier.pick(40_000, 1_000_000),
        || (picks(0, 29, 5), prop_oneof![20 => 0u8..7, 10 => 7u8..71, 1 => 71u8..91], any::<bool>()).boxed(),
        |(p, nsel, closed), st| {
            let (id, c, label) = p.resolve()?;
            check_ring(id, &c, *nsel, *closed, label, st)
        },
        |(p, nsel, closed)| json!({"pick": pick_json(p), "nsel": nsel, "closed": closed}),
    );
    rep.absorb("rings", r);
    rep
}

pub fn replay(section: &str, case: &Value) -> Option<Result<(), String>> {
    let mut st = Stats::default();
    Some(guarded(|| match section {
        "rings" => {
            let p: Pick = pick_from_json(&case["pick"]).ok_or("bad case")?;
            let (id, c, label) = p.resolve()?;
            check_ring(id, &c, case["nsel"].as_u64().ok_or("bad case")? as u8, case["closed"].as_bool().ok_or("bad case")?, label, &mut st)
        }
        _ => Err(format!("unknown section {}", section)),
    }))
}
