//! C10 — compaction is maximal, idempotent and canonical (non-overlapping inputs).

use super::c08::decode_all;
use super::sets::{self, SetScript};
use crate::engine::*;
use crate::gen;
use crate::oracle::codec::{self, Cell};
use crate::oracle::tree;
use proptest::prelude::*;
use serde_json::{json, Value};
use std::collections::BTreeSet;

const RULE: &str = "non-overlapping cell sets (antichains from the subdivision/deletion script, no overlap injection), \
>= 50% rooted at the world cell so that base cells, quintants and finer cells of several faces mix; each paired with \
a partial refinement of itself (same region, different antichain). Oracle: the unique maximal antichain of the set \
model; no complete sibling group remains; compact(result) == result; both members of the pair give the same set. \
non-trivial = some group completes only after an earlier merge (model needs >= 2 passes) or the set mixes \
resolution 0/1 cells of >= 2 faces; distinct by the set of input IDs.";

#[derive(Debug, Clone)]
pub struct Case {
    pub script: SetScript,
    /// refinement picks: members to subdivide again for the paired input
    pub refine: Vec<u16>,
}

fn case_json(c: &Case) -> Value {
    json!({"script": sets::script_json(&c.script), "refine": c.refine})
}
fn case_from_json(v: &Value) -> Option<Case> {
    Some(Case {
        script: sets::script_from_json(&v["script"])?,
        refine: v["refine"].as_array()?.iter().map(|x| Some(x.as_u64()? as u16)).collect::<Option<Vec<_>>>()?,
    })
}

fn fmt_ids(ids: &[u64]) -> String {
    let v: Vec<String> = ids.iter().take(40).map(|x| format!("{:x}", x)).collect();
    format!("[{}{}]", v.join(","), if ids.len() > 40 { ",…" } else { "" })
}

/// Number of merge passes the naive model needs (group completes only after an earlier merge <=> >= 2).
fn merge_depth(set: &[Cell]) -> u32 {
    let mut s: BTreeSet<Cell> = set.iter().copied().collect();
    let mut passes = 0;
    loop {
        let mut parents: BTreeSet<Cell> = BTreeSet::new();
        for c in &s {
            if let Some(p) = tree::parent(c) {
                if tree::children(&p).iter().all(|k| s.contains(k)) {
                    parents.insert(p);
                }
            }
        }
        if parents.is_empty() {
            return passes;
        }
        for p in parents {
            for k in tree::children(&p) {
                s.remove(&k);
            }
            s.insert(p);
        }
        passes += 1;
    }
}

pub fn check_antichain(cells: &[Cell], label: &str) -> Result<Vec<u64>, String> {
    let ids: Vec<u64> = cells.iter().map(codec::encode).collect();
    let out = a5::compact(&ids).map_err(|e| format!("compact({}) failed: {}", fmt_ids(&ids), e))?;
    let oc = decode_all(&out, "compact")?;
    let got: BTreeSet<Cell> = oc.iter().copied().collect();
    if got.len() != out.len() {
        return Err(format!("compact({}) [{}] contains duplicates: {}", fmt_ids(&ids), label, fmt_ids(&out)));
    }
    // no complete sibling group remains
    for c in &got {
        if let Some(p) = tree::parent(c) {
            if tree::children(&p).iter().all(|k| got.contains(k)) {
                return Err(format!(
                    "compact({}) [{}] = {} still contains the complete sibling group under {:#x}",
                    fmt_ids(&ids), label, fmt_ids(&out), codec::encode(&p)
                ));
            }
        }
    }
    let want = tree::compact_model(cells);
    if got != want {
        return Err(format!(
            "compact({}) [{}] = {} is not the maximal antichain of the region (model has {} cells, result {})",
            fmt_ids(&ids), label, fmt_ids(&out), want.len(), got.len()
        ));
    }
    // idempotent
    let again = a5::compact(&out).map_err(|e| format!("compact(compact(..)) failed: {}", e))?;
    let a: BTreeSet<u64> = again.iter().copied().collect();
    let b: BTreeSet<u64> = out.iter().copied().collect();
    if a != b || again.len() != out.len() {
        return Err(format!("compact is not idempotent [{}]: {} -> {} -> {}", label, fmt_ids(&ids), fmt_ids(&out), fmt_ids(&again)));
    }
    Ok(out)
}

fn check_case(case: &Case, st: &mut Stats) -> Result<(), String> {
    if case.script.perm_seed % 4 == 1 {
        super::c08::poison_compact(case.script.perm_seed >> 2);
        st.hit("failing-compact-call-first");
    }
    let b = sets::build(&case.script);
    let cells = b.antichain.clone();
    let out1 = check_antichain(&cells, "input")?;
    // paired input: a partial refinement covering the same region
    let max_res = crate::props::c07::max_target(&b.root).min(29);
    let mut refined = cells.clone();
    for &pick in &case.refine {
        if refined.is_empty() {
            break;
        }
        let i = pick_index(pick, refined.len());
        let c = refined[i];
        if c.res < max_res.max(c.res + 1).min(29) && refined.len() < 4000 {
            let kids = tree::children(&c);
            refined.splice(i..=i, kids);
        }
    }
    // order the refinement differently: reversed, or in ascending numeric ID order
    if case.script.perm_seed % 2 == 0 {
        refined.reverse();
    } else {
        refined.sort_by_key(codec::encode);
    }
    let out2 = check_antichain(&refined, "refinement")?;
    let s1: BTreeSet<u64> = out1.iter().copied().collect();
    let s2: BTreeSet<u64> = out2.iter().copied().collect();
    if s1 != s2 {
        return Err(format!(
            "two non-overlapping inputs covering the same region compact differently: {} vs {}",
            fmt_ids(&out1), fmt_ids(&out2)
        ));
    }
    let depth = merge_depth(&cells).max(merge_depth(&refined));
    let coarse_faces: BTreeSet<u8> = cells.iter().filter(|c| c.res == 0 || c.res == 1).map(|c| c.face).collect();
    let mixes = coarse_faces.len() >= 2;
    let mixes_both = mixes && cells.iter().any(|c| c.res == 0) && cells.iter().any(|c| c.res == 1);
    let nt = depth >= 2 || mixes;
    if nt {
        let mut key: Vec<u64> = cells.iter().map(codec::encode).collect();
        key.sort_unstable();
        st.nontrivial(&key);
    }
    st.hit(&format!("merge-passes:{}", depth.min(6)));
    if mixes {
        st.hit("mixes-res0/1-cells-of-several-faces");
    }
    if mixes_both {
        st.hit("base-cells-and-quintants-of-different-faces");
    }
    st.hit(&format!("root:{}", ["world", "base", "quintant", "deep"][case.script.root_kind as usize % 4]));
    st.sample(nt, || json!({"root": gen::cell_json(&b.root), "input": cells.iter().take(24).map(|c| format!("{:x}", codec::encode(c))).collect::<Vec<_>>(), "input_len": cells.len(), "refined_len": refined.len(), "output": out1.iter().take(24).map(|x| format!("{:x}", x)).collect::<Vec<_>>(), "model_merge_passes": depth}));
    Ok(())
}

fn fixed_shapes() -> Vec<(&'static str, Vec<Cell>)> {
    let mut v = Vec::new();
    let mut c = tree::children(&Cell::base(0));
    c.push(Cell::base(1));
    c.push(Cell::base(2));
    v.push(("quintants of face 0 + base cells 1, 2", c));
    // quintants of every face but one, that one as base cell -> world
    let mut d: Vec<Cell> = vec![Cell::base(7)];
    for f in (0..12).filter(|f| *f != 7) {
        d.extend(tree::children(&Cell::base(f)));
    }
    v.push(("11 faces as quintants + 1 base cell (-> world)", d));
    // base cells 0..10 + face 11 as res-2 cells
    let mut e: Vec<Cell> = (0..11).map(Cell::base).collect();
    for q in tree::children(&Cell::base(11)) {
        e.extend(tree::children(&q));
    }
    v.push(("11 base cells + face 11 at resolution 2 (-> world)", e));
    let mut f: Vec<Cell> = Vec::new();
    for face in [1u8, 5, 6, 9] {
        f.extend(tree::children(&Cell::base(face)));
    }
    for face in [0u8, 2, 3] {
        f.push(Cell::base(face));
    }
    v.push(("4 faces as quintants + 3 base cells", f));
    v
}

pub fn run(tier: Tier, seed: u64) -> Report {
    let mut rep = Report::new("C10", tier, seed, RULE);
    rep.assume("the set model's maximal antichain is the canonical description of a region");
    let shapes = fixed_shapes();
    let r = run_exhaustive(
        "fixed-shapes",
        shapes.len() as u64,
        |i, st| {
            st.nontrivial(&i);
            check_antichain(&shapes[i as usize].1, shapes[i as usize].0).map(|_| ())
        },
        |i| json!({"shape": shapes[i as usize].0, "cells": shapes[i as usize].1.iter().map(gen::cell_json).collect::<Vec<_>>()}),
    );
    if std::env::var("A5VERIF_SKIP_FIXED").is_err() && !rep.absorb("fixed-shapes", r) {
        return rep;
    }
    let r = run_pbt(
        "antichains",
        seed,
        tier.pick(10_000, 300_000),
        || {
            (sets::script(60, false), proptest::collection::vec(any::<u16>(), 0..8))
                .prop_map(|(mut script, refine)| {
                    // bias to the world root: >= 50% (the shapes that mix faces)
                    if script.perm_seed % 4 == 0 {
                        script.root_kind = 0;
                    }
                    Case { script, refine }
                })
                .boxed()
        },
        check_case,
        case_json,
    );
    rep.absorb("antichains", r);
    rep
}

pub fn replay(section: &str, case: &Value) -> Option<Result<(), String>> {
    let mut st = Stats::default();
    Some(guarded(|| match section {
        "antichains" => check_case(&case_from_json(case).ok_or("bad case")?, &mut st),
        "fixed-shapes" => {
            let cells: Vec<Cell> = case["cells"].as_array().ok_or("bad case")?.iter().filter_map(gen::cell_from_json).collect();
            check_antichain(&cells, "replay").map(|_| ())
        }
        _ => Err(format!("unknown section {}", section)),
    }))
}
