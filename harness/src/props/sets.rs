//! Generator of cell sets for the compaction properties (C08, C10): antichains built by recursive
//! subdivision and deletion from a root, optional overlap / duplicate injection, permutation.
//! The whole construction script is the generated value, so it shrinks as one.

use crate::engine::pick_index;
use crate::gen;
use crate::oracle::codec::Cell;
use crate::oracle::tree;
use proptest::prelude::*;
use serde_json::{json, Value};

#[derive(Debug, Clone)]
pub struct SetScript {
    /// 0 = world cell, 1 = base cell, 2 = quintant, 3 = deep cell
    pub root_kind: u8,
    pub root: gen::CellSpec,
    /// (pick, action): action 0..=5 subdivide, 6..=7 delete, 8 subdivide-all-siblings, 9 chain, 10 aligned subsample, 11 refine all
    pub ops: Vec<(u16, u8)>,
    /// (pick, kind, k): overlap injection
    pub overlaps: Vec<(u16, u8, u8)>,
    /// picks of members to duplicate
    pub dups: Vec<u16>,
    pub perm_seed: u64,
    /// deep mode: no depth budget (resolutions down to 29), for thin deep chains; the set stays
    /// small because every op adds at most a handful of cells
    pub deep: bool,
}

pub fn script_json(s: &SetScript) -> Value {
    json!({"root_kind": s.root_kind, "root": gen::cellspec_json(&s.root), "ops": s.ops, "overlaps": s.overlaps, "dups": s.dups, "perm_seed": s.perm_seed, "deep": s.deep})
}

pub fn script_from_json(v: &Value) -> Option<SetScript> {
    let ops = v["ops"].as_array()?.iter().map(|x| Some((x[0].as_u64()? as u16, x[1].as_u64()? as u8))).collect::<Option<Vec<_>>>()?;
    let overlaps = v["overlaps"]
        .as_array()?
        .iter()
        .map(|x| Some((x[0].as_u64()? as u16, x[1].as_u64()? as u8, x[2].as_u64()? as u8)))
        .collect::<Option<Vec<_>>>()?;
    let dups = v["dups"].as_array()?.iter().map(|x| Some(x.as_u64()? as u16)).collect::<Option<Vec<_>>>()?;
    Some(SetScript {
        root_kind: v["root_kind"].as_u64()? as u8,
        root: gen::cellspec_from_json(&v["root"])?,
        ops,
        overlaps,
        dups,
        perm_seed: v["perm_seed"].as_u64()?,
        deep: v["deep"].as_bool().unwrap_or(false),
    })
}

pub fn script(max_ops: usize, with_overlaps: bool) -> impl Strategy<Value = SetScript> {
    let ov = if with_overlaps { 6 } else { 0 };
    let shallow = (
        prop_oneof![4 => Just(0u8), 2 => Just(1u8), 2 => Just(2u8), 2 => Just(3u8)],
        gen::cell_spec(2, 29),
        proptest::collection::vec((any::<u16>(), prop_oneof![18 => 0u8..9, 2 => Just(10u8), 1 => Just(11u8)]), 0..max_ops),
        proptest::collection::vec((any::<u16>(), 0u8..6, any::<u8>()), 0..=ov),
        proptest::collection::vec(any::<u16>(), 0..=(if with_overlaps { 4 } else { 0 })),
        any::<u64>(),
    )
        .prop_map(|(root_kind, root, ops, overlaps, dups, perm_seed)| SetScript { root_kind, root, ops, overlaps, dups, perm_seed, deep: false });
    // thin deep chains: mostly "subdivide the cell produced last" (action 9), a few other ops, no depth budget
    let deep = (
        prop_oneof![5 => Just(0u8), 2 => Just(1u8), 2 => Just(2u8), 1 => Just(3u8)],
        gen::cell_spec(2, 12),
        prop_oneof![
            // pure chains (a full-depth chain from the world cell needs 31 of them)
            7 => proptest::collection::vec((any::<u16>(), Just(9u8)), 20..48),
            3 => proptest::collection::vec((any::<u16>(), prop_oneof![8 => Just(9u8), 1 => 0u8..6, 1 => Just(8u8), 1 => 6u8..8]), 0..48),
        ],
        proptest::collection::vec((any::<u16>(), 0u8..6, any::<u8>()), 0..=(ov / 2)),
        proptest::collection::vec(any::<u16>(), 0..=(if with_overlaps { 2 } else { 0 })),
        any::<u64>(),
    )
        .prop_map(|(root_kind, root, ops, overlaps, dups, perm_seed)| SetScript { root_kind, root, ops, overlaps, dups, perm_seed, deep: true });
    prop_oneof![4 => shallow, 1 => deep]
}

pub struct Built {
    pub root: Cell,
    /// the antichain (no overlaps), in construction order
    pub antichain: Vec<Cell>,
    /// antichain + injected overlaps + duplicates, permuted
    pub input: Vec<Cell>,
    pub injected_overlaps: usize,
    pub duplicates: usize,
    pub deleted: usize,
    /// finest resolution present in `input`
    pub finest: i32,
}

fn lcg(x: &mut u64) -> u64 {
    *x = x.wrapping_mul(6364136223846793005).wrapping_add(1442695040888963407);
    *x >> 33
}

pub fn build(s: &SetScript) -> Built {
    let root = match s.root_kind % 4 {
        0 => Cell::WORLD,
        1 => Cell::base(s.root.face),
        2 => Cell { res: 1, face: s.root.face, quintant: s.root.quintant, pos: 0 },
        _ => s.root.cell(),
    };
    // depth budget: the whole subtree at the finest allowed level has at most 4^8 cells
    let max_res = if s.deep { 29 } else { crate::props::c07::max_target(&root) };
    let mut set: Vec<Cell> = vec![root];
    let mut deleted = 0;
    let mut last: Option<Cell> = None;
    for &(pick, action) in &s.ops {
        if set.is_empty() {
            break;
        }
        let mut i = pick_index(pick, set.len());
        let mut action = action;
        if action == 9 {
            // chain: subdivide the first child produced by the previous subdivision
            if let Some(j) = last.and_then(|l| set.iter().position(|x| *x == l)) {
                i = j;
            }
            action = 0;
        }
        match action {
            0..=5 => {
                let c = set[i];
                if c.res < max_res && set.len() < 600 {
                    let kids = tree::children(&c);
                    last = Some(kids[(pick as usize) % kids.len()]);
                    set.splice(i..=i, kids);
                }
            }
            10 => {
                // aligned subsample: replace each sibling of the picked cell that is present by ONE descendant
                // with the same relative digits (so finer cells sit exactly one coarse stride apart)
                let c = set[i];
                if let Some(p) = tree::parent(&c) {
                    let depth = 1 + (pick as i32 % 2);
                    if c.res >= 2 && c.res + depth <= max_res {
                        let rel = (pick as u64 >> 3) & ((1u64 << (2 * depth)) - 1);
                        let mut out = Vec::with_capacity(set.len());
                        for x in &set {
                            if tree::parent(x) == Some(p) {
                                out.push(Cell { res: x.res + depth, face: x.face, quintant: x.quintant, pos: (x.pos << (2 * depth)) | rel });
                            } else {
                                out.push(*x);
                            }
                        }
                        set = out;
                    }
                }
            }
            11 => {
                // refine EVERY member by one level: the way to long inputs (thousands of cells) that the
                // one-at-a-time ops cannot reach
                if set.len() <= 1500 && set.iter().all(|x| x.res < max_res) {
                    let mut out = Vec::with_capacity(set.len() * 5);
                    for x in &set {
                        out.extend(tree::children(x));
                    }
                    set = out;
                }
            }
            6..=7 => {
                if set.len() > 1 {
                    set.remove(i);
                    deleted += 1;
                }
            }
            _ => {
                // subdivide every sibling of the picked cell that is present (keeps groups complete one level down)
                let c = set[i];
                if let Some(p) = tree::parent(&c) {
                    if c.res < max_res {
                        let mut out = Vec::with_capacity(set.len() + 16);
                        for x in &set {
                            if tree::parent(x) == Some(p) {
                                out.extend(tree::children(x));
                            } else {
                                out.push(*x);
                            }
                        }
                        set = out;
                    }
                }
            }
        }
    }
    let antichain = set.clone();
    let mut input = set;
    let mut injected = 0;
    if !antichain.is_empty() {
        for &(pick, kind, k) in &s.overlaps {
            let c = antichain[pick_index(pick, antichain.len())];
            match kind % 6 {
                0 => {
                    input.push(Cell::WORLD);
                    injected += 1;
                }
                1 => {
                    if c.res >= 0 {
                        input.push(Cell::base(c.face));
                        injected += 1;
                    }
                }
                2 | 3 => {
                    // an ancestor at a chosen level
                    if c.res >= 0 {
                        let l = -1 + (k as i32 % (c.res + 1));
                        input.push(tree::ancestor(&c, l));
                        injected += 1;
                    }
                }
                _ => {
                    // descendants one or two levels down (all, or one of them)
                    let d = 1 + (k as i32 % 2);
                    if c.res + d <= max_res.max(c.res) && c.res + d <= 29 {
                        let ds = tree::descendants(&c, c.res + d);
                        if kind % 6 == 4 {
                            input.extend(ds);
                        } else {
                            input.push(ds[(k as usize / 2) % ds.len()]);
                        }
                        injected += 1;
                    }
                }
            }
        }
        for &pick in &s.dups {
            let c = input[pick_index(pick, input.len())];
            input.push(c);
        }
    }
    // order: mostly a generated permutation (Fisher-Yates), sometimes ascending or descending numeric ID
    // order (what a caller gets from a sorted column or from uncompact / cell_to_children)
    match s.perm_seed % 7 {
        5 => input.sort_by_key(crate::oracle::codec::encode),
        6 => {
            input.sort_by_key(crate::oracle::codec::encode);
            input.reverse();
        }
        _ => {
            let mut x = s.perm_seed | 1;
            for i in (1..input.len()).rev() {
                let j = (lcg(&mut x) % (i as u64 + 1)) as usize;
                input.swap(i, j);
            }
        }
    }
    let finest = input.iter().map(|c| c.res).max().unwrap_or(-1);
    Built { root, antichain, input, injected_overlaps: injected, duplicates: s.dups.len(), deleted, finest }
}
