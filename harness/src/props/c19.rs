//! C19 — geodetic <-> authalic and lon/lat <-> sphere conversions are exact inverses.

use crate::engine::*;
use crate::oracle::geo;
use a5::coordinate_systems::{LonLat, Radians};
use a5::core::coordinate_transforms::{from_lon_lat, to_lon_lat};
use a5::projections::authalic::AuthalicProjection;
use proptest::prelude::*;
use serde_json::{json, Value};

const RULE: &str = "latitudes: a dense sorted grid over [-pi/2, pi/2] (exhaustive over the grid, monotonicity of neighbours), \
plus generated latitudes (uniform, pi/2 - 10^U(-15,0), near 0, endpoints) and generated pairs with gaps from 1e-12 rad; \
lon/lat pairs with lon in [-540, 540] incl. antimeridian and pole classes. Oracles: round trip <= 1e-12 rad, strict \
increase, oddness <= 1e-15, fixed points, agreement with the closed-form WGS84 authalic latitude <= 1e-11 rad for \
|lat| <= 89 deg, physical-point round trip <= 1e-12 rad by the harness's own angular distance. non-trivial = |lat| > 89 \
deg or < 1e-6 rad, or within 1e-6 deg of the antimeridian / a pole, or lon outside [-180, 180]; distinct by the bits of the input.";

const HALF_PI: f64 = std::f64::consts::FRAC_PI_2;

fn fwd(phi: f64) -> f64 {
    AuthalicProjection.forward(Radians::new_unchecked(phi)).get()
}
fn inv(phi: f64) -> f64 {
    AuthalicProjection.inverse(Radians::new_unchecked(phi)).get()
}

/// Closed-form authalic latitude through the pole-stable colatitude form.
fn closed_form(phi: f64) -> f64 {
    if phi >= 0.0 {
        HALF_PI - geo::authalic_colat(HALF_PI - phi)
    } else {
        -(HALF_PI - geo::authalic_colat(HALF_PI + phi))
    }
}

fn check_lat(phi: f64, st: &mut Stats) -> Result<(), String> {
    let b = fwd(phi);
    let back = inv(b);
    if !b.is_finite() || !back.is_finite() {
        return Err(format!("authalic conversion of {} is not finite: {} / {}", phi, b, back));
    }
    let e = (back - phi).abs();
    st.fmax("authalic-roundtrip-error-rad", e);
    if e > 1e-12 {
        return Err(format!("inverse(forward({:e})) = {:e}: off by {:e} rad (> 1e-12)", phi, back, e));
    }
    // and the other way round (authalic -> geodetic -> authalic)
    let e2 = (fwd(inv(phi)) - phi).abs();
    st.fmax("authalic-roundtrip-error-rad", e2);
    if e2 > 1e-12 {
        return Err(format!("forward(inverse({:e})) off by {:e} rad (> 1e-12)", phi, e2));
    }
    // odd
    let o = (fwd(-phi) + b).abs();
    st.fmax("oddness-error-rad", o);
    if o > 1e-15 {
        return Err(format!("forward(-x) != -forward(x) at x = {:e}: differ by {:e}", phi, o));
    }
    // closed form
    if phi.abs() <= 89f64.to_radians() {
        let c = closed_form(phi);
        let d = (b - c).abs();
        st.fmax("series-vs-closed-form-rad", d);
        if d > 1e-11 {
            return Err(format!("forward({:e}) = {:e} but the closed-form WGS84 authalic latitude is {:e} (diff {:e} > 1e-11)", phi, b, c, d));
        }
    } else {
        st.fmax("series-vs-closed-form-beyond-89deg-rad(not asserted)", (b - closed_form(phi)).abs());
    }
    // range: stays within [-pi/2, pi/2] up to rounding
    if b.abs() > HALF_PI + 1e-15 {
        return Err(format!("forward({:e}) = {:e} leaves [-pi/2, pi/2]", phi, b));
    }
    let nt = phi.abs() > 89f64.to_radians() || phi.abs() < 1e-6;
    if nt {
        st.nontrivial(&phi.to_bits());
    }
    st.hit(if phi.abs() > 89f64.to_radians() { "lat:>89deg" } else if phi.abs() < 1e-6 { "lat:<1e-6rad" } else { "lat:mid" });
    st.sample(nt, || json!({"lat_rad": phi, "authalic": b, "back": back}));
    Ok(())
}

fn check_pair(lo: f64, gap: f64, st: &mut Stats) -> Result<(), String> {
    let hi = (lo + gap).min(HALF_PI);
    if !(hi > lo) {
        return Ok(());
    }
    let (a, b) = (fwd(lo), fwd(hi));
    if !(b > a) {
        return Err(format!("forward is not strictly increasing: forward({:e}) = {:e} >= forward({:e}) = {:e}", lo, a, hi, b));
    }
    if gap >= 1e-9 {
        let (c, d) = (inv(lo), inv(hi));
        if !(d > c) {
            return Err(format!("inverse is not strictly increasing: inverse({:e}) = {:e} >= inverse({:e}) = {:e}", lo, c, hi, d));
        }
    }
    if lo.abs() > 89f64.to_radians() || gap < 1e-9 {
        st.nontrivial(&(lo.to_bits(), gap.to_bits()));
    }
    st.hit(&format!("pair-gap:1e{:+03}", gap.log10().floor() as i32));
    Ok(())
}

fn check_lonlat(lon: f64, lat: f64, st: &mut Stats) -> Result<(), String> {
    let s = from_lon_lat(LonLat::new(lon, lat));
    let back = to_lon_lat(s);
    if !back.longitude().is_finite() || !back.latitude().is_finite() {
        return Err(format!("to_lon_lat(from_lon_lat({}, {})) is not finite", lon, lat));
    }
    if back.latitude().abs() > 90.0 + 1e-9 {
        return Err(format!("round trip of ({}, {}) gives latitude {}", lon, lat, back.latitude()));
    }
    let a = geo::vec_of_lonlat(lon, lat);
    let b = geo::vec_of_lonlat(back.longitude(), back.latitude().clamp(-90.0, 90.0));
    let d = geo::ang(a, b);
    st.fmax("lonlat-roundtrip-error-rad", d);
    if d > 1e-12 {
        return Err(format!(
            "to_lon_lat(from_lon_lat(({}, {}))) = ({}, {}) is {:e} rad away (> 1e-12)",
            lon, lat, back.longitude(), back.latitude(), d
        ));
    }
    let near_am = (lon.abs() % 360.0 - 180.0).abs() < 1e-6;
    let nt = near_am || (90.0 - lat.abs()) < 1e-6 || lon.abs() > 180.0;
    if nt {
        st.nontrivial(&(lon.to_bits(), lat.to_bits()));
    }
    st.hit(if (90.0 - lat.abs()) < 1e-6 { "lonlat:pole" } else if near_am { "lonlat:antimeridian" } else if lon.abs() > 180.0 { "lonlat:wrapped" } else { "lonlat:plain" });
    st.sample(nt, || json!({"lon": lon, "lat": lat, "back": [back.longitude(), back.latitude()], "error_rad": d}));
    Ok(())
}

fn lat_strategy() -> BoxedStrategy<f64> {
    prop_oneof![
        4 => -HALF_PI..=HALF_PI,
        3 => (0.0f64..1.0, any::<bool>()).prop_map(|(u, s)| { let d = 10f64.powf(-15.0 + 15.0 * u); let p = (HALF_PI - d).max(0.0); if s { p } else { -p } }),
        2 => (0.0f64..1.0, any::<bool>()).prop_map(|(u, s)| { let d = 10f64.powf(-15.0 + 14.0 * u); if s { d } else { -d } }),
        1 => prop_oneof![Just(0.0), Just(HALF_PI), Just(-HALF_PI), Just(89f64.to_radians()), Just(-89f64.to_radians()), Just(std::f64::consts::FRAC_PI_4)],
    ]
    .boxed()
}

fn grid_lat(i: u64, n: u64) -> f64 {
    if i == 0 {
        -HALF_PI
    } else if i >= n - 1 {
        HALF_PI
    } else {
        -HALF_PI + std::f64::consts::PI * (i as f64) / ((n - 1) as f64)
    }
}

pub fn run(tier: Tier, seed: u64) -> Report {
    let mut rep = Report::new("C19", tier, seed, RULE);
    rep.assume("closed-form WGS84 authalic latitude as implemented in oracle/geo.rs (colatitude form) is the reference");
    // fixed points
    {
        let r = run_exhaustive(
            "fixed-points",
            3,
            |i, st| {
                let x = [0.0, HALF_PI, -HALF_PI][i as usize];
                let e = (fwd(x) - x).abs().max((inv(x) - x).abs());
                st.fmax("fixed-point-error-rad", e);
                st.nontrivial(&i);
                if e > 1e-15 {
                    return Err(format!("the conversion does not fix {:e}: forward -> {:e}, inverse -> {:e}", x, fwd(x), inv(x)));
                }
                Ok(())
            },
            |i| { let x = [0.0, HALF_PI, -HALF_PI][i as usize]; json!({"lat_rad": x}) },
        );
        if !rep.absorb("fixed-points", r) {
            return rep;
        }
    }
    let n = tier.pick(100_001u64, 2_000_001u64);
    let r = run_exhaustive(
        "grid",
        n,
        |i, st| {
            let x = grid_lat(i, n);
            check_lat(x, st)?;
            if i + 1 < n {
                let y = grid_lat(i + 1, n);
                if !(fwd(y) > fwd(x)) {
                    return Err(format!("forward is not strictly increasing between grid latitudes {:e} and {:e}", x, y));
                }
                if !(inv(y) > inv(x)) {
                    return Err(format!("inverse is not strictly increasing between grid latitudes {:e} and {:e}", x, y));
                }
            }
            Ok(())
        },
        |i| json!({"grid_index": i, "grid_size": n}),
    );
    rep.exhaustive.push(format!("dense latitude grid of {} points: round trip, oddness, closed form, monotone neighbours", n));
    if !rep.absorb("grid", r) {
        return rep;
    }
    let r = run_pbt("latitudes", seed, tier.pick(300_000, 10_000_000), lat_strategy, |x, st| check_lat(*x, st), |x| json!(x));
    if !rep.absorb("latitudes", r) {
        return rep;
    }
    let r = run_pbt(
        "pairs",
        seed,
        tier.pick(50_000, 2_000_000),
        || (lat_strategy(), 0.0f64..1.0).prop_map(|(lo, u)| (lo, 10f64.powf(-12.0 + 11.0 * u))).boxed(),
        |(lo, gap), st| check_pair(*lo, *gap, st),
        |(lo, gap)| json!([lo, gap]),
    );
    if !rep.absorb("pairs", r) {
        return rep;
    }
    let r = run_pbt(
        "lonlat",
        seed,
        tier.pick(100_000, 5_000_000),
        || {
            let lon = prop_oneof![
                4 => -540.0f64..=540.0,
                2 => (0.0f64..1.0, any::<bool>(), -1i32..=1).prop_map(|(u, s, k)| { let d = 10f64.powf(-12.0 + 12.0 * u); (if s { 180.0 - d } else { -180.0 + d }) + 360.0 * k as f64 }),
                1 => prop_oneof![Just(180.0), Just(-180.0), Just(0.0), Just(540.0), Just(-540.0), Just(360.0)],
            ];
            let lat = prop_oneof![
                4 => -90.0f64..=90.0,
                3 => (0.0f64..1.0, any::<bool>()).prop_map(|(u, s)| { let d = 10f64.powf(-14.0 + 15.0 * u); let p = (90.0 - d).max(0.0); if s { p } else { -p } }),
                1 => prop_oneof![Just(90.0), Just(-90.0), Just(0.0)],
            ];
            (lon, lat).boxed()
        },
        |(lon, lat), st| check_lonlat(*lon, *lat, st),
        |(lon, lat)| json!([lon, lat]),
    );
    rep.absorb("lonlat", r);
    rep
}

pub fn replay(section: &str, case: &Value) -> Option<Result<(), String>> {
    let mut st = Stats::default();
    Some(guarded(|| match section {
        "latitudes" => check_lat(case.as_f64().ok_or("bad case")?, &mut st),
        "grid" => {
            let (i, n) = (case["grid_index"].as_u64().ok_or("bad case")?, case["grid_size"].as_u64().ok_or("bad case")?);
            check_lat(grid_lat(i, n), &mut st)?;
            if i + 1 < n && !(fwd(grid_lat(i + 1, n)) > fwd(grid_lat(i, n)) && inv(grid_lat(i + 1, n)) > inv(grid_lat(i, n))) {
                return Err("not strictly increasing between grid neighbours".into());
            }
            Ok(())
        }
        "pairs" => check_pair(case[0].as_f64().ok_or("bad case")?, case[1].as_f64().ok_or("bad case")?, &mut st),
        "lonlat" => check_lonlat(case[0].as_f64().ok_or("bad case")?, case[1].as_f64().ok_or("bad case")?, &mut st),
        "fixed-points" => {
            let x = case["lat_rad"].as_f64().ok_or("bad case")?;
            if (fwd(x) - x).abs().max((inv(x) - x).abs()) > 1e-15 { Err(format!("does not fix {}", x)) } else { Ok(()) }
        }
        _ => Err(format!("unknown section {}", section)),
    }))
}
