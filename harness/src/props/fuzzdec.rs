//! Byte-level decoders for the coverage-guided fuzz targets (hand-written on
//! `arbitrary::Unstructured`). They live in the library so that a crashing input found by
//! libFuzzer can be decoded by the plain binary and turned into an ordinary JSON replay file.

use super::c14::Call;
use super::sets::SetScript;
use crate::gen::CellSpec;
use crate::oracle::codec;
use arbitrary::Unstructured;

fn cellspec(u: &mut Unstructured, min_res: i32, max_res: i32) -> arbitrary::Result<CellSpec> {
    Ok(CellSpec {
        res: u.int_in_range(min_res..=max_res)?,
        face: u.int_in_range(0..=11)?,
        quintant: u.int_in_range(0..=4)?,
        pos_class: u.int_in_range(0..=8)?,
        raw: u.arbitrary()?,
        k: u.int_in_range(0..=31)?,
    })
}

fn raw_id(u: &mut Unstructured) -> arbitrary::Result<u64> {
    Ok(match u.int_in_range(0..=7u8)? {
        0 | 1 => codec::encode(&cellspec(u, -1, 29)?.cell()),
        2 => u.arbitrary()?,
        3 => codec::encode(&cellspec(u, -1, 29)?.cell()) ^ (1u64 << u.int_in_range(0..=63u32)?),
        4 => codec::encode(&cellspec(u, -1, 29)?.cell()) | 1,
        5 => 1u64 << u.int_in_range(0..=63u32)?,
        6 => (u.int_in_range(0..=63u64)? << 58) | (u.arbitrary::<u64>()? & 0x0155_5555_5555_5554),
        _ => (codec::encode(&cellspec(u, 1, 29)?.cell()) & ((1u64 << 58) - 1)) | (u.int_in_range(12..=63u64)? << 58),
    })
}

fn raw_res(u: &mut Unstructured) -> arbitrary::Result<i32> {
    Ok(match u.int_in_range(0..=3u8)? {
        0 | 1 => u.int_in_range(-2..=31)?,
        2 => *u.choose(&[i32::MIN, -1000, -2, -1, 0, 1, 28, 29, 30, 31, 32, 33, 43, 64, 1000, i32::MAX])?,
        _ => u.arbitrary()?,
    })
}

fn coord(u: &mut Unstructured) -> arbitrary::Result<f64> {
    let v = match u.int_in_range(0..=3u8)? {
        0 => (u.arbitrary::<u32>()? as f64 / u32::MAX as f64) * 360.0 - 180.0,
        1 => (u.arbitrary::<u32>()? as f64 / u32::MAX as f64) * 180.0 - 90.0,
        2 => *u.choose(&[0.0, -0.0, 90.0, -90.0, 180.0, -180.0, 1e-300, 5e-324, 1e308, -1e308, f64::MAX, 91.0, 540.0])?,
        _ => f64::from_bits(u.arbitrary()?),
    };
    Ok(if v.is_finite() { v } else { 0.0 })
}

pub fn decode_call(data: &[u8]) -> Option<Call> {
    let mut u = Unstructured::new(data);
    let r: arbitrary::Result<Call> = (|| {
        Ok(match u.int_in_range(0..=9u8)? {
            0 => Call::Lookup { lon: coord(&mut u)?, lat: coord(&mut u)?, res: raw_res(&mut u)? },
            1 => Call::Centre { id: raw_id(&mut u)? },
            2 => Call::Boundary { id: raw_id(&mut u)?, n: u.int_in_range(0..=2)?, closed: u.arbitrary()? },
            3 => Call::Children { id: raw_id(&mut u)?, res: if u.arbitrary()? { Some(raw_res(&mut u)?) } else { None } },
            4 => Call::Parent { id: raw_id(&mut u)?, res: if u.arbitrary()? { Some(raw_res(&mut u)?) } else { None } },
            5 => Call::Resolution { id: raw_id(&mut u)? },
            6 => Call::NumCells { res: raw_res(&mut u)? },
            7 => Call::Area { res: raw_res(&mut u)? },
            8 => {
                let n = u.int_in_range(0..=8usize)?;
                let mut ids = Vec::new();
                for _ in 0..n {
                    ids.push(raw_id(&mut u)?);
                }
                Call::Compact { ids }
            }
            _ => {
                let n = u.int_in_range(0..=4usize)?;
                let mut ids = Vec::new();
                for _ in 0..n {
                    ids.push(raw_id(&mut u)?);
                }
                Call::Uncompact { ids, res: raw_res(&mut u)? }
            }
        })
    })();
    r.ok()
}

pub fn decode_script(data: &[u8]) -> Option<SetScript> {
    let mut u = Unstructured::new(data);
    let r: arbitrary::Result<SetScript> = (|| {
        let root_kind = u.int_in_range(0..=3u8)?;
        let root = cellspec(&mut u, 2, 29)?;
        let perm_seed: u64 = u.arbitrary()?;
        let deep: bool = u.int_in_range(0..=3u8)? == 0;
        let n_over = u.int_in_range(0..=6usize)?;
        let mut overlaps = Vec::new();
        for _ in 0..n_over {
            overlaps.push((u.arbitrary()?, u.int_in_range(0..=5u8)?, u.arbitrary()?));
        }
        let n_dup = u.int_in_range(0..=4usize)?;
        let mut dups = Vec::new();
        for _ in 0..n_dup {
            dups.push(u.arbitrary()?);
        }
        // the rest of the input drives the subdivision script
        let mut ops = Vec::new();
        while !u.is_empty() && ops.len() < 60 {
            ops.push((u.arbitrary()?, u.int_in_range(0..=10u8)?));
        }
        Ok(SetScript { root_kind, root, ops, overlaps, dups, perm_seed, deep })
    })();
    r.ok()
}

pub fn decode_string(data: &[u8]) -> String {
    String::from_utf8_lossy(data).into_owned()
}
