//! C09 — uncompact returns exactly the descendants at the target resolution, in input order.

use crate::engine::*;
use crate::gen;
use crate::oracle::codec::{self, Cell};
use crate::oracle::tree;
use proptest::prelude::*;
use serde_json::{json, Value};
use std::collections::BTreeSet;

const RULE: &str = "lists of 0-6 valid cells (mixed resolutions, world and base cells included, duplicates allowed) x \
target resolution -1..29 with bounded fan-out; about 15% of the cells are finer than the target (error case). \
Oracle: concatenation, in input order, of the set model's descendant sets; every element canonical, of the target \
resolution, with the input cell as ancestor; blocks duplicate-free; length = sum of fan-outs; Err exactly when some \
input is finer than the target. non-trivial = >= 2 inputs of different resolution, or an input at resolution <= 0, \
or the error case; distinct by (input IDs, target).";

#[derive(Debug, Clone)]
pub struct Case {
    pub target: i32,
    /// (cell spec, levels above the target 0..=8, or finer flag)
    pub items: Vec<(gen::CellSpec, u8, bool)>,
    /// related mode: every item is derived from the first one (its siblings in any order, duplicates,
    /// a cousin, its parent): the shapes a sibling-run shortcut would look at. One relation code per item.
    pub related: Vec<u8>,
}

fn case_json(c: &Case) -> Value {
    json!({"target": c.target, "items": c.items.iter().map(|(s, d, f)| json!([gen::cellspec_json(s), d, f])).collect::<Vec<_>>(), "related": c.related})
}
fn case_from_json(v: &Value) -> Option<Case> {
    Some(Case {
        target: v["target"].as_i64()? as i32,
        items: v["items"]
            .as_array()?
            .iter()
            .map(|x| Some((gen::cellspec_from_json(&x[0])?, x[1].as_u64()? as u8, x[2].as_bool()?)))
            .collect::<Option<Vec<_>>>()?,
        related: v["related"].as_array().map(|a| a.iter().filter_map(|x| x.as_u64().map(|y| y as u8)).collect()).unwrap_or_default(),
    })
}

fn cell_at(spec: &gen::CellSpec, res: i32) -> Cell {
    let mut s = *spec;
    s.res = res;
    s.cell()
}

fn check_case(case: &Case, st: &mut Stats) -> Result<(), String> {
    let t = case.target;
    let mut cells: Vec<Cell> = Vec::new();
    for (spec, above, finer) in &case.items {
        let c = if *finer {
            if t >= 29 {
                continue;
            }
            cell_at(spec, (t + 1 + (*above as i32 % 3)).min(29))
        } else {
            // coarser by `above` levels, limited by the fan-out bound 4^8
            let mut res = (t - *above as i32).max(-1);
            loop {
                let c = cell_at(spec, res);
                if tree::num_descendants(&c, t) <= crate::props::c07::MAX_FANOUT {
                    break c;
                }
                res += 1;
            }
        };
        cells.push(c);
    }
    if !case.related.is_empty() && !cells.is_empty() && cells[0].res >= 2 {
        // rebuild the list from the first cell's sibling group; a third of the time the first cell is the
        // last (or first) cell of its quintant's curve
        let mut first = cells[0];
        match case.related[0] % 6 {
            0 => first.pos = (1u64 << (2 * (first.res - 1))) - 1,
            1 => first.pos = 0,
            _ => {}
        }
        let parent = tree::parent(&first).unwrap();
        let sibs = tree::children(&parent);
        let mut out = Vec::new();
        for (i, r) in case.related.iter().enumerate() {
            let c = match r % 8 {
                0..=3 => sibs[(*r as usize) % sibs.len()],
                4 => sibs[i % sibs.len()],
                5 => first,
                7 if i > 0 => {
                    // the curve neighbour of the previous item: next position, carrying into the next
                    // quintant / face at the end of a quintant (or the previous one, for odd i)
                    let prev = out.last().copied().unwrap_or(first);
                    let id = codec::encode(&prev);
                    let stride = 1u64 << (58 - 2 * (prev.res - 1));
                    let nid = if i % 2 == 1 { id.wrapping_add(stride) } else { id.wrapping_sub(stride) };
                    codec::decode(nid).filter(|c| c.res == prev.res).unwrap_or(first)
                }
                6 => {
                    // a cousin: same position in the next sibling group
                    let mut x = sibs[i % sibs.len()];
                    x.pos ^= 4;
                    if x.is_valid() { x } else { first }
                }
                _ => cells[i % cells.len()],
            };
            if tree::num_descendants(&c, t.max(c.res)) <= crate::props::c07::MAX_FANOUT && c.res <= t {
                out.push(c);
            }
        }
        if !out.is_empty() {
            cells = out;
            st.hit("related-list(sibling group in any order, duplicates, cousins)");
        }
    }
    verify_list(&cells, t, st)
}

/// A long list (hundreds to thousands of cells; the generated lists above have at most 7): cells of the
/// target resolution and up to two levels coarser, drawn by a splitmix stream from the case's seed, optionally
/// sorted, with runs of consecutive curve positions. Total fan-out <= 16 per element.
#[derive(Debug, Clone)]
pub struct LongCase {
    pub target: i32,
    pub n: usize,
    pub seed: u64,
    pub mode: u8,
}

fn long_json(c: &LongCase) -> Value {
    json!({"target": c.target, "n": c.n, "seed": c.seed.to_string(), "mode": c.mode})
}
fn long_from_json(v: &Value) -> Option<LongCase> {
    Some(LongCase { target: v["target"].as_i64()? as i32, n: v["n"].as_u64()? as usize, seed: v["seed"].as_str()?.parse().ok()?, mode: v["mode"].as_u64()? as u8 })
}

fn check_long(case: &LongCase, st: &mut Stats) -> Result<(), String> {
    let t = case.target;
    let mut x = case.seed;
    let mut next = || {
        x = x.wrapping_add(0x9E3779B97F4A7C15);
        let mut z = x;
        z = (z ^ (z >> 30)).wrapping_mul(0xBF58476D1CE4E5B9);
        z = (z ^ (z >> 27)).wrapping_mul(0x94D049BB133111EB);
        z ^ (z >> 31)
    };
    let mut cells: Vec<Cell> = Vec::with_capacity(case.n);
    while cells.len() < case.n {
        let r = next();
        let res = (t - (r % 3) as i32).max(if t >= 2 { 2 } else { t.max(-1) }).min(t);
        let c = if res <= 1 {
            if res == -1 { Cell::WORLD } else { Cell { res, face: ((r >> 8) % 12) as u8, quintant: if res == 1 { ((r >> 16) % 5) as u8 } else { 0 }, pos: 0 } }
        } else {
            Cell { res, face: ((r >> 8) % 12) as u8, quintant: ((r >> 16) % 5) as u8, pos: (r >> 24) % (1u64 << (2 * (res - 1))) }
        };
        // a run of consecutive curve positions now and then
        let run = if case.mode & 1 == 1 && res >= 2 { 1 + (next() % 9) as u64 } else { 1 };
        for k in 0..run {
            let mut d = c;
            if res >= 2 {
                d.pos = (c.pos + k) % (1u64 << (2 * (res - 1)));
            }
            if cells.len() < case.n {
                cells.push(d);
            }
        }
    }
    match (case.mode >> 1) % 3 {
        1 => cells.sort_by_key(codec::encode),
        2 => {
            cells.sort_by_key(codec::encode);
            cells.reverse();
        }
        _ => {}
    }
    st.hit(&format!("long-list:len-{}", if case.n >= 1024 { ">=1024" } else { "<1024" }));
    st.hit(&format!("long-list:len-mod-4:{}", case.n % 4));
    verify_list(&cells, t, st)
}

fn verify_list(cells: &[Cell], t: i32, st: &mut Stats) -> Result<(), String> {
    let ids: Vec<u64> = cells.iter().map(codec::encode).collect();
    let expect_err = cells.iter().any(|c| c.res > t);
    let got = a5::uncompact(&ids, t);
    let desc = || if ids.len() <= 12 { format!("uncompact({:x?}, {})", ids, t) } else { format!("uncompact([{} cells: {:x?} ...], {})", ids.len(), &ids[..4], t) };
    match (&got, expect_err) {
        (Ok(v), true) => return Err(format!("{} returned {} cells although an input is finer than the target", desc(), v.len())),
        (Err(e), false) => return Err(format!("{} failed: {}", desc(), e)),
        (Err(_), true) => {
            st.hit("error-case");
        }
        (Ok(v), false) => {
            let want_len: u128 = cells.iter().map(|c| tree::num_descendants(c, t)).sum();
            if v.len() as u128 != want_len {
                return Err(format!("{} has {} elements, the hierarchy fan-outs sum to {}", desc(), v.len(), want_len));
            }
            let mut off = 0usize;
            for (i, c) in cells.iter().enumerate() {
                let n = tree::num_descendants(c, t) as usize;
                let block = &v[off..off + n];
                off += n;
                let want: BTreeSet<u64> = tree::descendants(c, t).iter().map(codec::encode).collect();
                let got: BTreeSet<u64> = block.iter().copied().collect();
                if got.len() != block.len() {
                    return Err(format!("{}: the block of input #{} ({:#x}) contains duplicates", desc(), i, ids[i]));
                }
                if got != want {
                    return Err(format!(
                        "{}: elements {}..{} are not the descendants of input #{} ({:#x}) at resolution {}",
                        desc(), off - n, off, i, ids[i], t
                    ));
                }
                for &x in block {
                    let xc = codec::decode(x).ok_or_else(|| format!("{} returned non-canonical ID {:#x}", desc(), x))?;
                    if xc.res != t || a5::get_resolution(x) != t {
                        return Err(format!("{} returned {:#x} of resolution {}", desc(), x, xc.res));
                    }
                    let p = a5::cell_to_parent(x, Some(c.res)).map_err(|e| format!("cell_to_parent({:#x},{}) failed: {}", x, c.res, e))?;
                    if p != ids[i] {
                        return Err(format!("{}: output {:#x} has ancestor {:#x} at resolution {}, not input #{} {:#x}", desc(), x, p, c.res, i, ids[i]));
                    }
                }
            }
            st.add("outputs-checked", v.len() as u64);
        }
    }
    let res_set: BTreeSet<i32> = cells.iter().map(|c| c.res).collect();
    let nt = res_set.len() >= 2 || cells.iter().any(|c| c.res <= 0) || expect_err;
    if nt {
        if ids.len() <= 16 {
            st.nontrivial(&(ids.clone(), t));
        } else {
            st.nontrivial(&(ids.len(), ids[0], ids[ids.len() / 2], ids[ids.len() - 1], t));
        }
    }
    st.hit(&format!("inputs:{}", if cells.len() > 8 { ">8".to_string() } else { cells.len().to_string() }));
    st.hit(&format!("target:{:02}", t));
    if cells.iter().any(|c| c.res == -1) {
        st.hit("has-world-cell");
    }
    if cells.iter().any(|c| c.res == 0) {
        st.hit("has-base-cell");
    }
    st.sample(nt, || json!({"inputs": ids.iter().take(12).map(|x| format!("{:x}", x)).collect::<Vec<_>>(), "n_inputs": ids.len(), "input_res": cells.iter().take(12).map(|c| c.res).collect::<Vec<_>>(), "target": t, "result": match &got { Ok(v) => format!("Ok({} cells)", v.len()), Err(e) => format!("Err({})", e) }}));
    Ok(())
}

pub fn run(tier: Tier, seed: u64) -> Report {
    let mut rep = Report::new("C09", tier, seed, RULE);
    rep.assume("the set model defines the descendants; order inside one input's block is not prescribed by the property");
    let r = run_pbt(
        "lists",
        seed,
        tier.pick(6_000, 200_000),
        || {
            (
                -1i32..=29,
                proptest::collection::vec((gen::cell_spec(-1, 29), prop_oneof![3 => 0u8..=2, 2 => 0u8..=8, 1 => 20u8..=31], proptest::bool::weighted(0.08)), 0..=6),
            )
                .prop_flat_map(|(target, items)| (Just(target), Just(items), prop_oneof![2 => Just(Vec::new()), 1 => proptest::collection::vec(0u8..8, 2..7)]))
                .prop_map(|(target, items, related)| Case { target, items, related })
                .boxed()
        },
        check_case,
        case_json,
    );
    if !rep.absorb("lists", r) {
        return rep;
    }
    let r = run_pbt(
        "long-lists",
        seed,
        tier.pick(60, 1_500),
        || (2i32..=29, prop_oneof![2 => 200usize..1024, 3 => 1024usize..3000], any::<u64>(), 0u8..6).prop_map(|(target, n, seed, mode)| LongCase { target, n, seed, mode }).boxed(),
        check_long,
        long_json,
    );
    rep.absorb("long-lists", r);
    rep
}

pub fn replay(section: &str, case: &Value) -> Option<Result<(), String>> {
    let mut st = Stats::default();
    Some(guarded(|| match section {
        "lists" => check_case(&case_from_json(case).ok_or("bad case")?, &mut st),
        "long-lists" => check_long(&long_from_json(case).ok_or("bad case")?, &mut st),
        _ => Err(format!("unknown section {}", section)),
    }))
}
