//! Known-findings file: plain text, committed, never written at run time.
//!   fixed: property=<id> <commit> <what failed>
//!   known: property=<id> signature=<sig> <what fails>
//! `fixed` entries suppress nothing. A `known` entry excludes exactly its signature.

use std::path::Path;

#[derive(Debug, Clone)]
pub struct Known {
    pub status: String,
    pub property: String,
    pub signature: String,
    pub what: String,
}

pub fn load(path: &Path) -> Vec<Known> {
    let mut out = Vec::new();
    let text = match std::fs::read_to_string(path) {
        Ok(t) => t,
        Err(_) => return out,
    };
    for line in text.lines() {
        let line = line.trim();
        if line.is_empty() || line.starts_with('#') {
            continue;
        }
        let (status, rest) = match line.split_once(':') {
            Some((s, r)) => (s.trim().to_string(), r.trim().to_string()),
            None => continue,
        };
        if status != "fixed" && status != "known" {
            continue;
        }
        let mut property = String::new();
        let mut signature = String::new();
        let mut what = Vec::new();
        for tok in rest.split_whitespace() {
            if let Some(p) = tok.strip_prefix("property=") {
                property = p.to_string();
            } else if let Some(s) = tok.strip_prefix("signature=") {
                signature = s.to_string();
            } else {
                what.push(tok);
            }
        }
        out.push(Known { status, property, signature, what: what.join(" ") });
    }
    out
}

pub fn has_known(known: &[Known], property: &str, signature: &str) -> bool {
    known.iter().any(|k| k.status == "known" && k.property == property && k.signature == signature)
}
