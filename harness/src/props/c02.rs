//! C02 — a cell's centre and every interior point map back to that cell.

use super::c04::{pick_from_json, pick_json, picks, Pick};
use super::contain;
use crate::api;
use crate::engine::*;
use crate::gen;
use crate::oracle::codec::Cell;
use crate::oracle::geo::*;
use proptest::prelude::*;
use serde_json::{json, Value};

const RULE: &str = "cells r = 0..29 (encoder cells of every face/quintant/position class; 40% found by lookup at pole, \
antimeridian, vertex and seam points). For each: the reported centre, and interior points built in the face plane \
(random convex combinations of the corners; corner + 1e-4 (centre - corner); points 10^U(-6,-2) cell sizes inside an \
edge), unprojected and converted to lon/lat by the harness, and points on the sphere between the reported centre and \
the reported boundary ring. Oracle: the lookup at the cell's own resolution returns the \
cell; asserted when the planar margin of the generated point is >= 2e-12 (centre always). non-trivial = r >= 2 and \
(the point is not the centre, or margin < 1e-3 cell sizes, or the cell was chosen at a special point); distinct by \
(cell ID, point bits).";

#[derive(Debug, Clone)]
pub struct Case {
    pub pick: Pick,
    /// (kind, corner/edge index, u1, u2, weights)
    pub points: Vec<(u8, u8, f64, f64, [f64; 5])>,
}

fn case_json(c: &Case) -> Value {
    json!({"pick": pick_json(&c.pick), "points": c.points.iter().map(|(k, i, a, b, w)| json!([k, i, a, b, w])).collect::<Vec<_>>()})
}
fn case_from_json(v: &Value) -> Option<Case> {
    let pts = v["points"]
        .as_array()?
        .iter()
        .map(|x| {
            let w = x[4].as_array()?;
            Some((x[0].as_u64()? as u8, x[1].as_u64()? as u8, x[2].as_f64()?, x[3].as_f64()?, [w[0].as_f64()?, w[1].as_f64()?, w[2].as_f64()?, w[3].as_f64()?, w[4].as_f64()?]))
        })
        .collect::<Option<Vec<_>>>()?;
    Some(Case { pick: pick_from_json(&v["pick"])?, points: pts })
}

fn lookup_expect(lon: f64, lat: f64, id: u64, c: &Cell, what: &str, margin: f64) -> Result<(), String> {
    // one time in four the same point is first looked up at another resolution (finer by 1..6 levels, or coarser):
    // a point maps back to its cell whatever was asked just before (choice derived from the coordinates)
    let sel = (lon.to_bits() >> 9) % 16;
    if sel < 4 {
        let other = if sel < 3 { (c.res + 1 + ((lat.to_bits() >> 9) % 6) as i32).min(29) } else { (c.res - 1 - ((lat.to_bits() >> 9) % 3) as i32).max(0) };
        if other != c.res {
            let _ = a5::lonlat_to_cell(api::lonlat(lon, lat), other);
        }
    }
    let got = a5::lonlat_to_cell(api::lonlat(lon, lat), c.res).map_err(|e| format!("lonlat_to_cell(({}, {}), {}) failed: {}", lon, lat, c.res, e))?;
    if got != id {
        return Err(format!(
            "{} of cell {:#x} (res {}, face {}, quintant {}, pos {}) is ({}, {}), which maps to {:#x} at the same resolution (planar margin {:.3e}, cell size {:.3e})",
            what, id, c.res, c.face, c.quintant, c.pos, lon, lat, got, margin, contain::cell_size(c.res)
        ));
    }
    Ok(())
}

fn check_case(case: &Case, st: &mut Stats) -> Result<(), String> {
    let (id, c, label) = case.pick.resolve()?;
    let pent = api::pentagon(&c)?;
    let n = pent.len();
    let centre_planar = [pent.iter().map(|v| v[0]).sum::<f64>() / n as f64, pent.iter().map(|v| v[1]).sum::<f64>() / n as f64];
    let centre_margin = convex_signed_dist(&pent, centre_planar);
    let size = (poly_area2(&pent).abs() / 2.0).sqrt();
    // 1. the reported centre
    let ctr = a5::cell_to_lonlat(id).map_err(|e| format!("cell_to_lonlat({:#x}) failed: {}", id, e))?;
    lookup_expect(ctr.longitude(), ctr.latitude(), id, &c, "the reported centre", centre_margin)?;
    // the reported centre is inside the reported boundary polygon (ties centre and ring together)
    let cv = vec_of_lonlat(ctr.longitude(), ctr.latitude().clamp(-90.0, 90.0));
    let v = contain::contains(id, cv)?;
    if !v.contained {
        return Err(format!("reported centre ({}, {}) of {:#x} is outside the cell (planar {:.3e}, ring {:?})", ctr.longitude(), ctr.latitude(), id, v.planar, v.ring));
    }
    st.fmax("neg-min-centre-margin/cell-size", -(centre_margin / size));
    let special = label != "encoder";
    if c.res >= 2 && special {
        st.nontrivial(&(id, 0u64, 0u64));
    }
    // 2. interior points
    let ccw = poly_area2(&pent) >= 0.0;
    for (kind, idx, u1, u2, w) in &case.points {
        let i = *idx as usize % n;
        if kind % 4 == 3 {
            // a point built from the *reported* geometry only: between the reported centre and a point of
            // the reported boundary ring, on the sphere. Interiority is judged against the reported polygon
            // (finely subdivided ring, outside its sagitta band), as the property's second sentence says.
            let info = contain::ring_info(id, &c, contain::ring_subdivisions(c.res))?;
            let m = info.ring.len();
            let per_edge = m / n;
            // half of the time aim at a corner of the polygon, otherwise at any ring point
            let k = if *idx & 1 == 0 { (i * per_edge) % m } else { ((*idx as usize) * 7919 + (u2 * m as f64) as usize) % m };
            let b = info.ring[k];
            let t = if w[0] < 0.5 { 0.05 + 0.93 * u1 } else { 1.0 - 10f64.powf(-2.5 + 2.0 * u1) };
            let p = unit(add(scale(cv, 1.0 - t), scale(b, t)));
            let (rv, rt) = info.test(p);
            if std::env::var("A5VERIF_DEBUG").is_ok() {
                st.fmax(&format!("dbg-band/cap-res{:02}", c.res), info.band / info.cap);
            }
            if rv != contain::RingVerdict::Inside || rt.dist < 4.0 * contain::STRICT {
                st.hit(&format!("not-asserted:ring-point:{:?}:t{}", rv, if t > 0.98 { ">0.98" } else { "<=0.98" }));
                if std::env::var("A5VERIF_DEBUG").is_ok() && t <= 0.9 {
                    st.sample(true, || json!({"DBG": true, "res": c.res, "t": t, "dist": rt.dist, "band": info.band, "cap": info.cap, "winding": rt.winding, "label": label}));
                }
                st.hit("in-edge-band-or-outside(counted, not asserted):between-centre-and-reported-ring");
                continue;
            }
            let (lon, lat) = lonlat_of_vec(p);
            lookup_expect(lon, lat.clamp(-90.0, 90.0), id, &c, "point inside the reported boundary polygon (between the reported centre and a ring point)", rt.dist)?;
            st.hit(if t > 0.98 { "asserted:inside-reported-ring-near-its-boundary" } else { "asserted:between-centre-and-reported-ring" });
            st.eval();
            if c.res >= 2 {
                st.nontrivial(&(id, p[0].to_bits(), p[1].to_bits()));
            }
            continue;
        }
        let q = match kind % 4 {
            0 if w[4] < 0.4 => {
                // corner wedge: close to a corner and close to one of its two edges, inside the cell (where
                // the lookup's probe search works hardest)
                let a = pent[i];
                let nb = pent[(i + 1) % n];
                let pv = pent[(i + n - 1) % n];
                let base = (nb[1] - a[1]).atan2(nb[0] - a[0]);
                let other = (pv[1] - a[1]).atan2(pv[0] - a[0]);
                let mut interior = other - base;
                if ccw {
                    while interior <= 0.0 {
                        interior += std::f64::consts::TAU;
                    }
                } else {
                    while interior >= 0.0 {
                        interior -= std::f64::consts::TAU;
                    }
                }
                let f = 10f64.powf(-3.5 + 2.7 * u1);
                let frac = if w[3] < 0.5 { f } else { 1.0 - f };
                let rho = 10f64.powf(-2.3 + 1.3 * u2) * size;
                let ang = base + interior * frac;
                [a[0] + rho * ang.cos(), a[1] + rho * ang.sin()]
            }
            0 => {
                let s: f64 = w.iter().take(n).map(|x| x + 1e-6).sum();
                let mut q = [0.0, 0.0];
                for (k, v) in pent.iter().enumerate() {
                    q[0] += (w[k] + 1e-6) / s * v[0];
                    q[1] += (w[k] + 1e-6) / s * v[1];
                }
                q
            }
            1 => [pent[i][0] + 1e-4 * (centre_planar[0] - pent[i][0]), pent[i][1] + 1e-4 * (centre_planar[1] - pent[i][1])],
            _ => {
                let a = pent[i];
                let b = pent[(i + 1) % n];
                let (ex, ey) = (b[0] - a[0], b[1] - a[1]);
                let l = (ex * ex + ey * ey).sqrt();
                let (mut nx, mut ny) = (-ey / l, ex / l);
                if !ccw {
                    nx = -nx;
                    ny = -ny;
                }
                let off = 10f64.powf(-6.0 + 4.0 * u2) * size;
                let t = 0.02 + 0.96 * u1;
                [a[0] + t * ex + off * nx, a[1] + t * ey + off * ny]
            }
        };
        let margin = convex_signed_dist(&pent, q);
        let kind_name = if kind % 4 == 0 && w[4] < 0.4 { "corner-wedge" } else { ["convex-combination", "1e-4-from-a-corner", "just-inside-an-edge"][*kind as usize % 4] };
        if margin < contain::STRICT {
            st.hit(&format!("in-rounding-band(counted, not asserted):{}", kind_name));
            continue;
        }
        let sv = api::inverse(q, c.face)?;
        let (lon, lat) = lonlat_of_vec(sv);
        lookup_expect(lon, lat.clamp(-90.0, 90.0), id, &c, &format!("interior point ({})", kind_name), margin)?;
        st.hit(&format!("asserted:{}", kind_name));
        st.eval(); // every asserted round trip is an evaluation of the property
        if c.res >= 2 {
            st.nontrivial(&(id, q[0].to_bits(), q[1].to_bits()));
        }
    }
    st.hit(&format!("res:{:02}", c.res));
    st.hit(&format!("chosen-by:{}", label));
    st.sample(c.res >= 2, || json!({"cell": gen::cell_json(&c), "chosen_by": label, "centre": [ctr.longitude(), ctr.latitude()], "centre_margin_in_cell_sizes": centre_margin / size, "interior_points": case.points.len()}));
    Ok(())
}

pub fn run(tier: Tier, seed: u64) -> Report {
    let mut rep = Report::new("C02", tier, seed, RULE);
    rep.assume("interior points are built from the library's planar pentagon and unprojected with its inverse projection (pinned by C15/C17); lon/lat conversion is the harness's own");
    let r = run_pbt(
        "cells",
        seed,
        tier.pick(30_000, 800_000),
        || {
            (picks(0, 29, 4), proptest::collection::vec((0u8..4, 0u8..5, 0.0f64..1.0, 0.0f64..1.0, [0.0f64..1.0, 0.0f64..1.0, 0.0f64..1.0, 0.0f64..1.0, 0.0f64..1.0]), 4..=4))
                .prop_map(|(pick, points)| Case { pick, points })
                .boxed()
        },
        check_case,
        case_json,
    );
    rep.absorb("cells", r);
    rep
}

pub fn replay(section: &str, case: &Value) -> Option<Result<(), String>> {
    let mut st = Stats::default();
    Some(guarded(|| match section {
        "cells" => check_case(&case_from_json(case).ok_or("bad case")?, &mut st),
        _ => Err(format!("unknown section {}", section)),
    }))
}
